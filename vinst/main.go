// vinst: instrumenter.  Loads the target tree (type-checked), rewrites every non-test file of the
// genql packages and writes a `go build -overlay` description that
//
//   - replaces `import "sync"` by the controlled shims of package vrt,
//   - turns every go statement into vrt.Go (arguments still evaluated at spawn time),
//   - turns every range over a map into a range over vrt.RangeMap (explorer-owned order),
//   - adds the virtual package <repo>/vrt and the private-state hooks file verif_hooks.go.
//
// usage: vinst -src <tree to instrument> -modroot <dir the harness go.mod replaces genql with>
//
//	-vrt <vrt_src dir> -out <build dir>
//
// Exit status 2 = the tree could not be loaded / rewritten (never a property verdict).
package main

import (
	"bytes"
	"encoding/json"
	"flag"
	"fmt"
	"go/ast"
	"go/format"
	"go/token"
	"go/types"
	"os"
	"path/filepath"
	"sort"
	"strconv"
	"strings"

	"golang.org/x/tools/go/ast/astutil"
	"golang.org/x/tools/go/packages"
)

const vrtPath = "github.com/vedadiyan/genql/vrt"

func die(format string, a ...any) {
	fmt.Fprintf(os.Stderr, "vinst: "+format+"\n", a...)
	os.Exit(2)
}

type siteInfo struct {
	ID   int    `json:"id"`
	Kind string `json:"kind"`
	Pos  string `json:"pos"`
}

func main() {
	src := flag.String("src", "/repo", "tree to instrument")
	modroot := flag.String("modroot", "/repo", "directory the harness module replaces genql with")
	vrtDir := flag.String("vrt", "", "directory holding the vrt sources")
	out := flag.String("out", "", "output directory")
	flag.Parse()
	if *vrtDir == "" || *out == "" {
		die("need -vrt and -out")
	}
	cfg := &packages.Config{
		Mode: packages.NeedName | packages.NeedFiles | packages.NeedCompiledGoFiles | packages.NeedSyntax |
			packages.NeedTypes | packages.NeedTypesInfo | packages.NeedImports | packages.NeedDeps,
		Dir:   *src,
		Tests: false,
		Env:   append(os.Environ(), "GOFLAGS=-mod=mod", "GOPROXY=off", "GOSUMDB=off", "GOTOOLCHAIN=local"),
	}
	pkgs, err := packages.Load(cfg, "./...")
	if err != nil {
		die("load: %v", err)
	}
	nerr := 0
	for _, p := range pkgs {
		for _, e := range p.Errors {
			fmt.Fprintf(os.Stderr, "vinst: %s: %v\n", p.PkgPath, e)
			nerr++
		}
	}
	if nerr > 0 {
		die("target tree does not type-check")
	}
	ovDir := filepath.Join(*out, "overlay")
	os.RemoveAll(ovDir)
	if err := os.MkdirAll(ovDir, 0o755); err != nil {
		die("%v", err)
	}
	replace := map[string]string{}
	var sites []siteInfo
	siteID := 0
	absSrc, _ := filepath.Abs(*src)
	var cacheType string
	var hasMut bool
	present := map[string]bool{}
	for _, p := range pkgs {
		if strings.HasSuffix(p.PkgPath, "/vrt") {
			continue
		}
		for i, f := range p.Syntax {
			fname := p.CompiledGoFiles[i]
			rel, err := filepath.Rel(absSrc, fname)
			if err != nil || strings.HasPrefix(rel, "..") {
				die("file %s outside %s", fname, absSrc)
			}
			present[rel] = true
			needVrt := false
			// pass 0: channel operations, select, time.Sleep, sync/atomic calls
			if rewriteChannels(p, f) {
				needVrt = true
			}
			// pass 1: go statements and map ranges
			var rewriteErr error
			ast.Inspect(f, func(n ast.Node) bool {
				switch n := n.(type) {
				case *ast.BlockStmt:
					rewriteList(p, n.List, &siteID, &sites, &needVrt, &rewriteErr)
				case *ast.CaseClause:
					rewriteList(p, n.Body, &siteID, &sites, &needVrt, &rewriteErr)
				case *ast.CommClause:
					rewriteList(p, n.Body, &siteID, &sites, &needVrt, &rewriteErr)
				case *ast.LabeledStmt:
					if g, ok := n.Stmt.(*ast.GoStmt); ok {
						n.Stmt = rewriteGo(p, g, &siteID, &sites, &rewriteErr)
						needVrt = true
					}
				case *ast.RangeStmt:
					if tv, ok := p.TypesInfo.Types[n.X]; ok {
						if _, isMap := tv.Type.Underlying().(*types.Map); isMap && !isPureMapCopy(n) {
							siteID++
							sites = append(sites, siteInfo{siteID, "range-map", p.Fset.Position(n.Pos()).String()})
							n.X = &ast.CallExpr{
								Fun:  &ast.SelectorExpr{X: ast.NewIdent("vrt__"), Sel: ast.NewIdent("RangeMap")},
								Args: []ast.Expr{n.X, &ast.BasicLit{Kind: token.INT, Value: strconv.Itoa(siteID)}},
							}
							needVrt = true
						}
					}
				}
				return true
			})
			if rewriteErr != nil {
				die("%s: %v", rel, rewriteErr)
			}
			// pass 2: imports
			for _, imp := range f.Imports {
				if imp.Path.Value == `"sync"` {
					name := "sync"
					if imp.Name != nil {
						name = imp.Name.Name
					}
					imp.Name = ast.NewIdent(name)
					imp.Path.Value = strconv.Quote(vrtPath)
				}
			}
			if needVrt {
				addImport(f, "vrt__", vrtPath)
			}
			// comments are dropped (new nodes carry no positions and the printer could otherwise
			// interleave a comment with rewritten code); build constraints are kept
			var buf bytes.Buffer
			for _, cg := range f.Comments {
				if cg.Pos() < f.Package {
					for _, c := range cg.List {
						if strings.HasPrefix(c.Text, "//go:build") {
							buf.WriteString(c.Text + "\n\n")
						}
					}
				}
			}
			f.Comments = nil
			f.Doc = nil
			if err := format.Node(&buf, p.Fset, f); err != nil {
				die("print %s: %v", rel, err)
			}
			dst := filepath.Join(ovDir, rel)
			os.MkdirAll(filepath.Dir(dst), 0o755)
			if err := os.WriteFile(dst, buf.Bytes(), 0o644); err != nil {
				die("%v", err)
			}
			replace[filepath.Join(*modroot, rel)] = dst
		}
		if p.PkgPath == "github.com/vedadiyan/genql" {
			if obj := p.Types.Scope().Lookup("cache"); obj != nil {
				if _, ok := obj.Type().Underlying().(*types.Map); ok {
					cacheType = types.TypeString(obj.Type(), func(*types.Package) string { return "" })
				}
			}
			if obj := p.Types.Scope().Lookup("mut"); obj != nil {
				hasMut = strings.HasSuffix(obj.Type().String(), "sync.Mutex")
			}
		}
	}
	// files present under modroot but absent from src must disappear from the build
	if *modroot != *src {
		filepath.Walk(*modroot, func(path string, info os.FileInfo, err error) error {
			if err != nil {
				return nil
			}
			if info.IsDir() {
				if info.Name() == ".git" {
					return filepath.SkipDir
				}
				return nil
			}
			if strings.HasSuffix(path, ".go") && !strings.HasSuffix(path, "_test.go") {
				rel, _ := filepath.Rel(*modroot, path)
				if !present[rel] {
					if _, err := os.Stat(filepath.Join(*src, rel)); err != nil {
						replace[path] = ""
					}
				}
			}
			return nil
		})
	}
	// hooks file
	hooks := "//go:build verif\n\npackage genql\n\n"
	if cacheType != "" && hasMut {
		hooks += "// VerifResetSelectorCache empties the process-wide selector cache so that executions are independent.\n" +
			"func VerifResetSelectorCache() {\n\tmut.Lock()\n\tcache = make(" + cacheType + ")\n\tmut.Unlock()\n}\n\n" +
			"// VerifSelectorCacheLen reports the number of cached selectors.\n" +
			"func VerifSelectorCacheLen() int {\n\tmut.Lock()\n\tdefer mut.Unlock()\n\treturn len(cache)\n}\n"
	} else if cacheType != "" {
		hooks += "func VerifResetSelectorCache() { cache = make(" + cacheType + ") }\n\nfunc VerifSelectorCacheLen() int { return len(cache) }\n"
	} else {
		hooks += "// the selector cache has an unknown shape in this tree: reset unavailable\n" +
			"func VerifResetSelectorCache() {}\n\nfunc VerifSelectorCacheLen() int { return -1 }\n"
	}
	// address of the selector-cache mutex (for vrt.SetQuiet in result-oriented schedule checks)
	hasMutexMut := hasMut
	if hasMutexMut {
		hooks = strings.Replace(hooks, "package genql\n\n", "package genql\n\nimport \"unsafe\"\n\n", 1)
		hooks += "\nfunc VerifSelectorMutex() unsafe.Pointer { return unsafe.Pointer(&mut) }\n"
	} else {
		hooks = strings.Replace(hooks, "package genql\n\n", "package genql\n\nimport \"unsafe\"\n\n", 1)
		hooks += "\nfunc VerifSelectorMutex() unsafe.Pointer { return nil }\n"
	}
	hooksPath := filepath.Join(ovDir, "verif_hooks.go")
	os.WriteFile(hooksPath, []byte(hooks), 0o644)
	replace[filepath.Join(*modroot, "verif_hooks.go")] = hooksPath
	// sqlparser (a pure, single-threaded LALR parser) is excluded from race instrumentation: under
	// -race it is 20x slower and dominates every execution; its memory accesses are private to one
	// call and cannot take part in a race of genql.  //go:norace is ignored by non-race builds.
	for _, p := range pkgs {
		if sp, ok := p.Imports["github.com/vedadiyan/sqlparser/v2"]; ok {
			for _, gf := range sp.GoFiles {
				// only the generated LALR tables / driver and the tokenizer: the AST types and their
				// methods stay instrumented (genql mutates parsed statements - SetWith, USING -> ON -
				// and a race on a shared AST must remain visible)
				switch filepath.Base(gf) {
				case "sql.go", "token.go", "keywords.go", "parser.go", "parsed_query.go", "tracked_buffer.go", "ast_format.go", "ast_format_fast.go":
				default:
					continue
				}
				b, err := os.ReadFile(gf)
				if err != nil {
					continue
				}
				lines := strings.Split(string(b), "\n")
				var outl []string
				for _, l := range lines {
					if strings.HasPrefix(l, "func ") {
						outl = append(outl, "//go:norace")
					}
					outl = append(outl, l)
				}
				dst := filepath.Join(ovDir, "sqlparser", filepath.Base(gf))
				os.MkdirAll(filepath.Dir(dst), 0o755)
				os.WriteFile(dst, []byte(strings.Join(outl, "\n")), 0o644)
				replace[gf] = dst
			}
			break
		}
	}
	// virtual package vrt
	absVrt, _ := filepath.Abs(*vrtDir)
	ents, err := os.ReadDir(absVrt)
	if err != nil {
		die("%v", err)
	}
	for _, e := range ents {
		if strings.HasSuffix(e.Name(), ".go") {
			replace[filepath.Join(*modroot, "vrt", e.Name())] = filepath.Join(absVrt, e.Name())
		}
	}
	ov, _ := json.MarshalIndent(map[string]any{"Replace": replace}, "", " ")
	if err := os.WriteFile(filepath.Join(*out, "overlay.json"), ov, 0o644); err != nil {
		die("%v", err)
	}
	sort.Slice(sites, func(i, j int) bool { return sites[i].ID < sites[j].ID })
	sj, _ := json.MarshalIndent(sites, "", " ")
	os.WriteFile(filepath.Join(*out, "sites.json"), sj, 0o644)
	ngo, nrange := 0, 0
	for _, s := range sites {
		if s.Kind == "go" {
			ngo++
		} else {
			nrange++
		}
	}
	fmt.Printf("vinst: %d files, %d go statements, %d range-over-map sites\n", len(present), ngo, nrange)
}

func rewriteList(p *packages.Package, list []ast.Stmt, siteID *int, sites *[]siteInfo, needVrt *bool, rerr *error) {
	for i, s := range list {
		if g, ok := s.(*ast.GoStmt); ok {
			list[i] = rewriteGo(p, g, siteID, sites, rerr)
			*needVrt = true
		}
	}
}

// rewriteGo turns `go f(a, b)` into `{ f_, a_, b_ := f, a, b; vrt.Go(func() { f_(a_, b_) }) }`.
func rewriteGo(p *packages.Package, g *ast.GoStmt, siteID *int, sites *[]siteInfo, rerr *error) ast.Stmt {
	*siteID++
	*sites = append(*sites, siteInfo{*siteID, "go", p.Fset.Position(g.Pos()).String()})
	call := g.Call
	var lhs, rhs []ast.Expr
	fun := call.Fun
	if _, isLit := fun.(*ast.FuncLit); !isLit {
		// a method value or function expression is evaluated at the go statement
		if tv, ok := p.TypesInfo.Types[fun]; ok && tv.IsType() {
			*rerr = fmt.Errorf("go statement with a conversion at %s is not supported", p.Fset.Position(g.Pos()))
			return g
		}
		if id, ok := fun.(*ast.Ident); ok {
			if _, isBuiltin := p.TypesInfo.Uses[id].(*types.Builtin); isBuiltin {
				*rerr = fmt.Errorf("go statement with a builtin at %s is not supported", p.Fset.Position(g.Pos()))
				return g
			}
		}
		name := fmt.Sprintf("vgo%d_f", *siteID)
		lhs = append(lhs, ast.NewIdent(name))
		rhs = append(rhs, fun)
		fun = ast.NewIdent(name)
	}
	args := make([]ast.Expr, len(call.Args))
	for i, a := range call.Args {
		name := fmt.Sprintf("vgo%d_a%d", *siteID, i)
		lhs = append(lhs, ast.NewIdent(name))
		rhs = append(rhs, a)
		args[i] = ast.NewIdent(name)
	}
	inner := &ast.CallExpr{Fun: fun, Args: args, Ellipsis: call.Ellipsis}
	if call.Ellipsis != token.NoPos {
		inner.Ellipsis = 1
	}
	body := &ast.BlockStmt{List: []ast.Stmt{&ast.ExprStmt{X: inner}}}
	goCall := &ast.ExprStmt{X: &ast.CallExpr{
		Fun:  &ast.SelectorExpr{X: ast.NewIdent("vrt__"), Sel: ast.NewIdent("Go")},
		Args: []ast.Expr{&ast.FuncLit{Type: &ast.FuncType{Params: &ast.FieldList{}}, Body: body}},
	}}
	blk := &ast.BlockStmt{}
	if len(lhs) > 0 {
		blk.List = append(blk.List, &ast.AssignStmt{Lhs: lhs, Tok: token.DEFINE, Rhs: rhs})
	}
	blk.List = append(blk.List, goCall)
	return blk
}

func vrtCall(name string, args ...ast.Expr) *ast.CallExpr {
	return &ast.CallExpr{Fun: &ast.SelectorExpr{X: ast.NewIdent("vrt__"), Sel: ast.NewIdent(name)}, Args: args}
}

// rewriteChannels routes channel operations, blocking selects, time.Sleep and sync/atomic calls
// through package vrt (see vrt_src/chan.go).  Communication clauses of select statements keep their
// real channel operations; a select without default is bracketed by ExtBlock / ExtResume, one with
// a default clause never blocks and only gets a scheduling point in front of it.
func rewriteChannels(p *packages.Package, f *ast.File) bool {
	changed := false
	raw := map[ast.Node]bool{}
	isChan := func(e ast.Expr) bool {
		tv, ok := p.TypesInfo.Types[e]
		if !ok || tv.Type == nil {
			return false
		}
		_, ok = tv.Type.Underlying().(*types.Chan)
		return ok
	}
	selID := 0
	// the replaced callees, referenced once more at the end of the file so that their imports stay used
	var keep []ast.Expr
	defer func() {
		for _, k := range keep {
			f.Decls = append(f.Decls, &ast.GenDecl{Tok: token.VAR, Specs: []ast.Spec{&ast.ValueSpec{Names: []*ast.Ident{ast.NewIdent("_")}, Values: []ast.Expr{k}}}})
		}
	}()
	astutil.Apply(f, func(c *astutil.Cursor) bool {
		switch n := c.Node().(type) {
		case *ast.CommClause:
			switch cm := n.Comm.(type) {
			case *ast.SendStmt:
				raw[cm] = true
			case *ast.ExprStmt:
				raw[ast.Unparen(cm.X)] = true
			case *ast.AssignStmt:
				if len(cm.Rhs) == 1 {
					raw[ast.Unparen(cm.Rhs[0])] = true
				}
			}
		}
		return true
	}, func(c *astutil.Cursor) bool {
		switch n := c.Node().(type) {
		case *ast.SendStmt:
			if raw[n] {
				return true
			}
			c.Replace(&ast.ExprStmt{X: &ast.CallExpr{Fun: vrtCall("ChanSender", n.Chan), Args: []ast.Expr{n.Value}}})
			changed = true
		case *ast.UnaryExpr:
			if n.Op != token.ARROW || raw[n] {
				return true
			}
			two := false
			switch par := c.Parent().(type) {
			case *ast.AssignStmt:
				two = len(par.Lhs) == 2 && len(par.Rhs) == 1 && par.Rhs[0] == ast.Expr(n)
			case *ast.ValueSpec:
				two = len(par.Names) == 2 && len(par.Values) == 1 && par.Values[0] == ast.Expr(n)
			}
			if two {
				c.Replace(vrtCall("ChanRecv2", n.X))
			} else {
				c.Replace(vrtCall("ChanRecv", n.X))
			}
			changed = true
		case *ast.CallExpr:
			switch fn := n.Fun.(type) {
			case *ast.Ident:
				if b, ok := p.TypesInfo.Uses[fn].(*types.Builtin); ok && b.Name() == "close" && len(n.Args) == 1 {
					n.Fun = &ast.SelectorExpr{X: ast.NewIdent("vrt__"), Sel: ast.NewIdent("ChanClose")}
					changed = true
				}
			case *ast.SelectorExpr:
				obj := p.TypesInfo.Uses[fn.Sel]
				if fobj, ok := obj.(*types.Func); ok && fobj.Pkg() != nil {
					switch {
					case fobj.Pkg().Path() == "time" && fobj.Name() == "Sleep" && fobj.Type().(*types.Signature).Recv() == nil:
						keep = append(keep, n.Fun)
						n.Fun = &ast.SelectorExpr{X: ast.NewIdent("vrt__"), Sel: ast.NewIdent("Sleep")}
						changed = true
					case fobj.Pkg().Path() == "runtime" && fobj.Name() == "Gosched":
						keep = append(keep, n.Fun)
						n.Fun = &ast.SelectorExpr{X: ast.NewIdent("vrt__"), Sel: ast.NewIdent("Gosched")}
						changed = true
					case fobj.Pkg().Path() == "sync/atomic":
						n.Fun = vrtCall("AP", n.Fun)
						changed = true
					}
				}
			}
		case *ast.RangeStmt:
			if isChan(n.X) {
				n.X = vrtCall("ChanRange", n.X)
				changed = true
			}
		case *ast.SelectStmt:
			if _, labeled := c.Parent().(*ast.LabeledStmt); labeled {
				return true // `break L` must keep naming the select: left alone
			}
			hasDefault := false
			for _, cl := range n.Body.List {
				if cl.(*ast.CommClause).Comm == nil {
					hasDefault = true
				}
			}
			changed = true
			if hasDefault {
				c.Replace(&ast.BlockStmt{List: []ast.Stmt{&ast.ExprStmt{X: vrtCall("Yield")}, n}})
				return true
			}
			selID++
			id := fmt.Sprintf("vsel%d_id", selID)
			var refs []ast.Expr
			for _, cl := range n.Body.List {
				cc := cl.(*ast.CommClause)
				// the channel of the communication, named a second time for the scheduler's
				// bookkeeping - only when naming it twice cannot have an effect
				var ref ast.Expr
				switch cm := cc.Comm.(type) {
				case *ast.SendStmt:
					if simpleExpr(cm.Chan) {
						ref = vrtCall("SelSend", cm.Chan)
					}
				case *ast.ExprStmt:
					if u, ok := ast.Unparen(cm.X).(*ast.UnaryExpr); ok && u.Op == token.ARROW && simpleExpr(u.X) {
						ref = vrtCall("SelRecv", u.X)
					}
				case *ast.AssignStmt:
					if len(cm.Rhs) == 1 {
						if u, ok := ast.Unparen(cm.Rhs[0]).(*ast.UnaryExpr); ok && u.Op == token.ARROW && simpleExpr(u.X) {
							ref = vrtCall("SelRecv", u.X)
						}
					}
				}
				if ref != nil {
					refs = append(refs, ref)
					cc.Body = append([]ast.Stmt{&ast.ExprStmt{X: vrtCall("ExtResumeSel", ast.NewIdent(id), ref)}}, cc.Body...)
				} else {
					cc.Body = append([]ast.Stmt{&ast.ExprStmt{X: vrtCall("ExtResume", ast.NewIdent(id))}}, cc.Body...)
				}
			}
			fallback := []ast.Stmt{
				&ast.AssignStmt{Lhs: []ast.Expr{ast.NewIdent(id)}, Tok: token.DEFINE, Rhs: []ast.Expr{vrtCall("ExtBlock", refs...)}},
				n,
			}
			if len(refs) == len(n.Body.List) && len(refs) <= 16 && !hasLabels(n) {
				// every communication is named: which of several ready ones is taken becomes a choice
				// of the explorer (SelectChoose); the chosen one is performed as an operation of its
				// own.  Only when none can proceed the thread parks in the real select.
				sw := &ast.SwitchStmt{Tag: vrtCall("SelectChoose", refs...), Body: &ast.BlockStmt{}}
				for i, cl := range n.Body.List {
					cc := cl.(*ast.CommClause)
					var comm ast.Stmt
					switch cm := cc.Comm.(type) {
					case *ast.SendStmt:
						comm = &ast.ExprStmt{X: &ast.CallExpr{Fun: vrtCall("ChanSender", cm.Chan), Args: []ast.Expr{cm.Value}}}
					case *ast.ExprStmt:
						comm = &ast.ExprStmt{X: vrtCall("ChanRecv", ast.Unparen(cm.X).(*ast.UnaryExpr).X)}
					case *ast.AssignStmt:
						fn := "ChanRecv"
						if len(cm.Lhs) == 2 {
							fn = "ChanRecv2"
						}
						comm = &ast.AssignStmt{Lhs: cm.Lhs, Tok: cm.Tok, Rhs: []ast.Expr{vrtCall(fn, ast.Unparen(cm.Rhs[0]).(*ast.UnaryExpr).X)}}
					}
					// cc.Body[0] is the ExtResumeSel call added above: not part of the direct path
					body := append([]ast.Stmt{comm}, cc.Body[1:]...)
					sw.Body.List = append(sw.Body.List, &ast.CaseClause{List: []ast.Expr{&ast.BasicLit{Kind: token.INT, Value: strconv.Itoa(i)}}, Body: body})
				}
				sw.Body.List = append(sw.Body.List, &ast.CaseClause{Body: fallback})
				c.Replace(&ast.BlockStmt{List: []ast.Stmt{&ast.ExprStmt{X: vrtCall("Yield")}, sw}})
				return true
			}
			c.Replace(&ast.BlockStmt{List: append([]ast.Stmt{&ast.ExprStmt{X: vrtCall("Yield")}}, fallback...)})
		}
		return true
	})
	return changed
}

// hasLabels: a labelled statement inside the select's bodies (they would be emitted twice).
func hasLabels(n ast.Node) bool {
	found := false
	ast.Inspect(n, func(x ast.Node) bool {
		if _, ok := x.(*ast.LabeledStmt); ok {
			found = true
		}
		return !found
	})
	return found
}

// simpleExpr: identifiers, field selections and parenthesised forms of them - evaluating one twice
// has no effect.
func simpleExpr(e ast.Expr) bool {
	switch x := e.(type) {
	case *ast.Ident:
		return true
	case *ast.SelectorExpr:
		return simpleExpr(x.X)
	case *ast.ParenExpr:
		return simpleExpr(x.X)
	case *ast.StarExpr:
		return simpleExpr(x.X)
	}
	return false
}

func addImport(f *ast.File, name, path string) {
	spec := &ast.ImportSpec{Name: ast.NewIdent(name), Path: &ast.BasicLit{Kind: token.STRING, Value: strconv.Quote(path)}}
	decl := &ast.GenDecl{Tok: token.IMPORT, Specs: []ast.Spec{spec}}
	f.Decls = append([]ast.Decl{decl}, f.Decls...)
	f.Imports = append(f.Imports, spec)
}


// isPureMapCopy recognises `for k, v := range m { dst[k] = v }`: the iterations write distinct
// keys of another map and commute, so the iteration order is unobservable and the loop is left
// alone (no choice point).
func isPureMapCopy(n *ast.RangeStmt) bool {
	k, ok1 := n.Key.(*ast.Ident)
	v, ok2 := n.Value.(*ast.Ident)
	if !ok1 || !ok2 || k.Name == "_" || v.Name == "_" || n.Body == nil || len(n.Body.List) != 1 {
		return false
	}
	as, ok := n.Body.List[0].(*ast.AssignStmt)
	if !ok || as.Tok != token.ASSIGN || len(as.Lhs) != 1 || len(as.Rhs) != 1 {
		return false
	}
	ix, ok := as.Lhs[0].(*ast.IndexExpr)
	if !ok {
		return false
	}
	dst, ok := ix.X.(*ast.Ident)
	if !ok {
		return false
	}
	if src, isIdent := n.X.(*ast.Ident); isIdent && src.Name == dst.Name {
		return false
	}
	ki, ok := ix.Index.(*ast.Ident)
	if !ok || ki.Name != k.Name {
		return false
	}
	vi, ok := as.Rhs[0].(*ast.Ident)
	return ok && vi.Name == v.Name
}
