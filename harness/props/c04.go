package props

import (
	"fmt"
	"sort"
	"strings"

	"github.com/vedadiyan/genql"
	"github.com/vedadiyan/genql/vrt"
	"verif/harness/core"
	"verif/harness/gq"
	. "verif/harness/sqlm"
)

// C04: joins return the textbook multiset for every join type and strategy, independent of the
// order / orientation / column names of the ON conjuncts, of duplicate or multi-column keys, of
// Go-map iteration order and of thread scheduling (PARALLEL variants).

type c04on struct {
	name string
	e    Expr
	equi bool // conjunction of equalities only
}

type c04kind struct {
	sql   string // join keyword(s)
	outer int    // 0 inner, 1 left, 2 right
	par   bool
}

type c04case struct {
	on    int
	kind  int
	sched bool // explore schedules / map orders on a subset of table pairs
	al    int  // alias pair (0: x / y; others: aliases one of which is a prefix of the other)
	twice bool // the join inside a CTE that is read twice (UNION ALL): the join node is built more than once in one New
}

type c04 struct {
	tier   string
	ons    []c04on
	kinds  []c04kind
	cases  []c04case
	left   [][]any
	right  [][]any
	subset [][2]int
	bound  int
}

func init() { core.Register("C04", func() core.Prop { return &c04{} }) }

func (p *c04) ID() string { return "C04" }

func c04Col(s string) Expr { return Col{s} }

func (p *c04) Init(tier string) {
	p.tier = tier
	eq := func(l, r string) Expr { return Cmp{"=", c04Col(l), c04Col(r)} }
	cmp := func(op, l, r string) Expr { return Cmp{op, c04Col(l), c04Col(r)} }
	atoms := []c04on{
		{"k=k", eq("x.k", "y.k"), true},
		{"k=k(reversed)", eq("y.k", "x.k"), true},
		{"z=b", eq("x.z", "y.b"), true},
		{"a=m", eq("x.a", "y.m"), true},
		{"s=s", eq("x.s", "y.s"), true},
		{"z<b", cmp("<", "x.z", "y.b"), false},
		{"z<=b", cmp("<=", "x.z", "y.b"), false},
		{"a>m", cmp(">", "x.a", "y.m"), false},
		{"a!=m", cmp("!=", "x.a", "y.m"), false},
		{"k<k", cmp("<", "x.k", "y.k"), false},
		{"b>=z(reversed)", cmp(">=", "y.b", "x.z"), false},
		// column names with upper-case letters
		{"uId=oId", eq("x.uId", "y.oId"), true},
		{"uId<oId", cmp("<", "x.uId", "y.oId"), false},
	}
	p.ons = append(p.ons, atoms...)
	and := func(a, b c04on) c04on { return c04on{a.name + " AND " + b.name, And{a.e, b.e}, a.equi && b.equi} }
	or := func(a, b c04on) c04on { return c04on{a.name + " OR " + b.name, Or{a.e, b.e}, false} }
	pairs := [][2]int{{0, 2}, {2, 0}, {0, 4}, {4, 0}, {1, 2}, {2, 3}, {3, 2}, {0, 3}, {4, 2}, {0, 5}, {5, 0}, {2, 7}, {0, 8}, {9, 2}, {5, 7}, {1, 10}}
	for _, pr := range pairs {
		p.ons = append(p.ons, and(atoms[pr[0]], atoms[pr[1]]))
	}
	for _, pr := range [][2]int{{0, 2}, {2, 0}, {0, 5}, {3, 4}, {5, 7}, {1, 8}} {
		p.ons = append(p.ons, or(atoms[pr[0]], atoms[pr[1]]))
	}
	// three conjuncts, and a repeated column
	p.ons = append(p.ons,
		c04on{"k=k AND s=s AND z=b", And{And{atoms[0].e, atoms[4].e}, atoms[2].e}, true},
		c04on{"z=b AND s=s AND k=k", And{And{atoms[2].e, atoms[4].e}, atoms[0].e}, true},
		c04on{"z=b AND z=m", And{atoms[2].e, eq("x.z", "y.m")}, true},
		c04on{"(k=k OR z=b) AND a=m", And{Or{atoms[0].e, atoms[2].e}, atoms[3].e}, false},
	)
	p.kinds = []c04kind{
		{"JOIN", 0, false}, {"LEFT JOIN", 1, false}, {"RIGHT JOIN", 2, false},
		{"HASH_JOIN", 0, false}, {"LEFT HASH_JOIN", 1, false}, {"RIGHT HASH_JOIN", 2, false},
		{"STRAIGHT_JOIN", 0, false},
		{"PARALLEL JOIN", 0, true}, {"PARALLEL LEFT JOIN", 1, true}, {"PARALLEL RIGHT JOIN", 2, true},
		{"PARALLEL HASH_JOIN", 0, true}, {"PARALLEL LEFT HASH_JOIN", 1, true}, {"PARALLEL RIGHT HASH_JOIN", 2, true},
		{"PARALLEL STRAIGHT_JOIN", 0, true},
	}
	for on := range p.ons {
		for k := range p.kinds {
			p.cases = append(p.cases, c04case{on: on, kind: k})
		}
	}
	for _, on := range []int{0, 2, 5, 8, 11, 13, 20, 27} {
		for k := range p.kinds {
			p.cases = append(p.cases, c04case{on: on, kind: k, twice: true})
		}
	}
	// aliases one of which is a prefix of the other, in both assignments
	for _, on := range []int{0, 1, 2, 5, 10, 11, 12, 15, 20, 26, 27, 31} {
		for k := range p.kinds {
			for al := 1; al < len(c04Aliases); al++ {
				p.cases = append(p.cases, c04case{on: on, kind: k, al: al})
			}
		}
	}
	// schedule / map-order exploration: every kind x a representative ON set
	for _, on := range []int{0, 2, 5, 8, 11, 12, 13, 20, 27, 31} {
		for k := range p.kinds {
			p.cases = append(p.cases, c04case{on: on, kind: k, sched: true})
		}
	}
	la := []map[string]any{
		{"k": "a", "s": "-b", "z": 1.0, "a": 1.0, "uId": 9.0},
		{"k": "a-", "s": "b", "z": 2.0, "a": 2.0, "uId": 10.0},
		{"k": "a", "s": "b", "z": 1.0, "a": 3.0, "uId": 2.0},
		{"k": "b", "s": "-b", "z": 2.0, "a": 1.0, "uId": 10.0},
	}
	ra := []map[string]any{
		{"k": "a", "s": "-b", "b": 1.0, "m": 1.0, "oId": 9.0},
		{"k": "a-", "s": "b", "b": 2.0, "m": 3.0, "oId": 10.0},
		{"k": "a", "s": "b", "b": 2.0, "m": 1.0, "oId": 2.0},
		{"k": "b", "s": "b", "b": 1.0, "m": 2.0, "oId": 10.0},
	}
	maxRows := 2
	if tier == "thorough" {
		maxRows = 3
	}
	gen := func(arch []map[string]any, idKey string) [][]any {
		var out [][]any
		var rec func(cur []int)
		rec = func(cur []int) {
			rows := []any{}
			for i, k := range cur {
				row := gq.CloneMap(arch[k])
				row[idKey] = float64(i)
				rows = append(rows, row)
			}
			out = append(out, rows)
			if len(cur) == maxRows {
				return
			}
			for k := range arch {
				rec(append(append([]int{}, cur...), k))
			}
		}
		rec(nil)
		return out
	}
	p.left = gen(la, "id")
	p.right = gen(ra, "rid")
	// subset for exploration: pairs of 2-row tables with distinct rows (several hash keys, hence
	// several goroutines in the PARALLEL variants), plus an empty side
	distinct := func(rows []any, idKey string) bool {
		if len(rows) != 2 {
			return false
		}
		a, b := gq.CloneMap(rows[0].(map[string]any)), gq.CloneMap(rows[1].(map[string]any))
		delete(a, idKey)
		delete(b, idKey)
		return gq.Render(a) != gq.Render(b)
	}
	for li, l := range p.left {
		for ri, r := range p.right {
			if distinct(l, "id") && distinct(r, "rid") {
				if tier == "quick" && (li*5+ri)%3 != 0 {
					continue
				}
				p.subset = append(p.subset, [2]int{li, ri})
			}
		}
	}
	p.subset = append(p.subset, [2]int{0, 5}, [2]int{6, 0})
	p.bound = 2
	// one larger pair (17 x 13 rows, every archetype several times): size thresholds in hash tables,
	// key lists and result buffers
	big := func(arch []map[string]any, n int, idKey string) []any {
		rows := []any{}
		for i := 0; i < n; i++ {
			row := gq.CloneMap(arch[(i*3+i/4)%len(arch)])
			row[idKey] = float64(i)
			rows = append(rows, row)
		}
		return rows
	}
	p.left = append(p.left, big(la, 17, "id"))
	p.right = append(p.right, big(ra, 13, "rid"))
	// numeric keys that differ only far behind the decimal point (a key text with a fixed number of
	// decimals would merge them)
	p.left = append(p.left, []any{
		map[string]any{"id": 0.0, "k": "a", "s": "b", "z": 52.5200071, "a": 0.30000000000000004},
		map[string]any{"id": 1.0, "k": "b", "s": "b", "z": 52.5200072, "a": 0.3},
		map[string]any{"id": 2.0, "k": "a", "s": "-b", "z": 1e-9, "a": 1e15 + 0.5},
	})
	// string keys that collide when the columns of a composite key are joined with separators or
	// length prefixes of various styles (every column differs, the concatenations do not)
	p.left = append(p.left, []any{
		map[string]any{"id": 0.0, "k": "k", "s": "1:v", "z": 1.0, "a": 1.0},
		map[string]any{"id": 1.0, "k": "ab", "s": "c", "z": 1.0, "a": 1.0},
		map[string]any{"id": 2.0, "k": "1:a", "s": "", "z": 1.0, "a": 1.0},
		map[string]any{"id": 3.0, "k": "x|y", "s": "z", "z": 1.0, "a": 1.0},
	})
	p.right = append(p.right, []any{
		map[string]any{"rid": 0.0, "k": "k3:", "s": "v", "b": 1.0, "m": 1.0},
		map[string]any{"rid": 1.0, "k": "a", "s": "bc", "b": 1.0, "m": 1.0},
		map[string]any{"rid": 2.0, "k": "", "s": "1:a", "b": 1.0, "m": 1.0},
		map[string]any{"rid": 3.0, "k": "x", "s": "y|z", "b": 1.0, "m": 1.0},
	})
	bl, br := c04BigKeys()
	p.left = append(p.left, bl)
	p.right = append(p.right, br)
	p.right = append(p.right, []any{
		map[string]any{"rid": 0.0, "k": "a", "s": "b", "b": 52.5200072, "m": 0.3},
		map[string]any{"rid": 1.0, "k": "b", "s": "-b", "b": 52.5200071, "m": 0.30000000000000004},
		map[string]any{"rid": 2.0, "k": "a", "s": "b", "b": 2e-9, "m": 1e15},
	})
}

func (p *c04) NumCases() int { return len(p.cases) }

// c04BigKeys: 64-bit integer keys beyond 2^53 that differ by less than the spacing of doubles at
// that magnitude (a key rendered or hashed through float64 merges them; Compare tells them apart).
func c04BigKeys() (l, r []any) {
	const B = int64(1) << 60
	l = []any{
		map[string]any{"id": 0.0, "k": "a", "s": "b", "z": B + 1, "a": B + 1},
		map[string]any{"id": 1.0, "k": "b", "s": "b", "z": B + 2, "a": B + 3},
		map[string]any{"id": 2.0, "k": "a", "s": "-b", "z": B + 3, "a": B + 2},
		map[string]any{"id": 3.0, "k": "c", "s": "c", "z": B + 2, "a": B + 130},
	}
	r = []any{
		map[string]any{"rid": 0.0, "k": "a", "s": "b", "b": B + 2, "m": B + 2},
		map[string]any{"rid": 1.0, "k": "b", "s": "-b", "b": B + 1, "m": B + 1},
		map[string]any{"rid": 2.0, "k": "a", "s": "b", "b": B + 4, "m": B + 129},
	}
	return
}

func c04OnSQL(e Expr) string {
	switch e := e.(type) {
	case Col:
		return e.Name // qualified, unquoted: x.k
	case Cmp:
		return c04OnSQL(e.L) + " " + e.Op + " " + c04OnSQL(e.R)
	case And:
		return "(" + c04OnSQL(e.L) + " AND " + c04OnSQL(e.R) + ")"
	case Or:
		return "(" + c04OnSQL(e.L) + " OR " + c04OnSQL(e.R) + ")"
	}
	panic("c04OnSQL")
}

var c04Aliases = [][2]string{{"x", "y"}, {"x", "xy"}, {"xy", "x"}, {"t", "u"}}

func (p *c04) sqlOf(c *c04case) string {
	s := p.sqlXY(c)
	if c.al == 0 {
		return s
	}
	la, ra := c04Aliases[c.al][0], c04Aliases[c.al][1]
	s = strings.NewReplacer("x.", "\x01.", "y.", "\x02.", " t x ", " t \x01 ", " u y ", " u \x02 ").Replace(s)
	return strings.NewReplacer("\x01", la, "\x02", ra).Replace(s)
}

func (p *c04) sqlXY(c *c04case) string {
	var on string
	switch e := p.ons[c.on].e.(type) {
	case And:
		on = c04OnSQL(e.L) + " AND " + c04OnSQL(e.R)
	case Or:
		on = c04OnSQL(e.L) + " OR " + c04OnSQL(e.R)
	default:
		on = c04OnSQL(e)
	}
	base := "SELECT * FROM t x " + p.kinds[c.kind].sql + " u y ON " + on
	if c.twice {
		return "WITH c AS (" + base + ") SELECT * FROM c UNION ALL SELECT * FROM c"
	}
	return base
}

func (p *c04) Describe(i int) any {
	c := &p.cases[i]
	d := map[string]any{"query": p.sqlOf(c)}
	if c.sched {
		d["tables"] = fmt.Sprintf("%d table pairs; every schedule (PARALLEL) and map iteration order within deviation bound %d", len(p.subset), p.bound)
	} else {
		d["tables"] = fmt.Sprintf("all %d x %d pairs of tables of <= %d rows over 4 archetypes per side", len(p.left), len(p.right), map[string]int{"quick": 2, "thorough": 3}[p.tier])
	}
	return d
}

// reference: textbook join as a sorted multiset of rendered rows.
func (p *c04) reference(c *c04case, l, r []any) ([]string, bool) {
	var out []string
	on := p.ons[c.on].e
	outer := p.kinds[c.kind].outer
	rMatched := make([]bool, len(r))
	for _, lr := range l {
		matched := false
		for ri, rr := range r {
			v, ok := Eval(on, map[string]any{"x": lr, "y": rr}, nil)
			b, isBool := v.(bool)
			if !ok || !isBool {
				return nil, false
			}
			if b {
				matched = true
				rMatched[ri] = true
				out = append(out, gq.Render(map[string]any{"x": lr, "y": rr}))
			}
		}
		if !matched && outer == 1 {
			out = append(out, gq.Render(map[string]any{"x": lr, "y": nil}))
		}
	}
	if outer == 2 {
		for ri, rr := range r {
			if !rMatched[ri] {
				out = append(out, gq.Render(map[string]any{"x": nil, "y": rr}))
			}
		}
	}
	sort.Strings(out)
	return out, true
}

func (p *c04) sig(c *c04case, mode string) string {
	o := p.ons[c.on]
	shape := "non-equi"
	if o.equi {
		shape = "equi"
	}
	if strings.Contains(o.name, " OR ") {
		shape = "or"
	}
	n := strings.Count(o.name, " AND ") + strings.Count(o.name, " OR ") + 1
	if c.twice {
		mode = "cte-read-twice:" + mode
	}
	return fmt.Sprintf("C04|%s|on=%s/%d|%s", p.kinds[c.kind].sql, shape, n, mode)
}

func c04Mode(got, want []string) string {
	switch {
	case len(got) > len(want):
		return "extra-rows"
	case len(got) < len(want):
		return "missing-rows"
	}
	return "wrong-rows"
}

func (p *c04) RunCase(i int) *core.CaseResult {
	defer withNoise()()
	r := &core.CaseResult{}
	defer withUsage(r, "C04")()
	c := &p.cases[i]
	sql := p.sqlOf(c)
	if c.sched {
		p.runSched(r, c, sql)
		return r
	}
	for _, l := range p.left {
		for _, rt := range p.right {
			want, ok := p.reference(c, l, rt)
			if !ok {
				r.Unspecified++
				continue
			}
			if c.twice {
				want = append(append([]string{}, want...), want...)
				sort.Strings(want)
			}
			doc := map[string]any{"t": gq.Clone(l), "u": gq.Clone(rt)}
			out := gq.Run(doc, sql)
			r.Execs++
			cs := map[string]any{"sql": sql, "doc": map[string]any{"t": l, "u": rt}}
			if out.Failed() || out.GPanic != "" {
				r.Fail(p.sig(c, out.Status()), fmt.Sprintf("%s on t=%s u=%s: ended with %s: %v %s %s; reference %v", sql, gq.Render(l), gq.Render(rt), out.Status(), out.Err, out.Panic, out.GPanic, want), cs)
				continue
			}
			if c.al > 0 {
				// back to the reference's alias names
				la, ra := c04Aliases[c.al][0], c04Aliases[c.al][1]
				for i, row := range out.Rows {
					if m, ok := row.(map[string]any); ok && len(m) == 2 {
						lv, lok := m[la]
						rv, rok := m[ra]
						if lok && rok {
							out.Rows[i] = map[string]any{"x": lv, "y": rv}
						}
					}
				}
			}
			got := gq.RenderRows(out.Rows)
			sort.Strings(got)
			if len(want) > 0 && len(want) < len(l)*len(rt) {
				r.Nontrivial = true
			}
			r.Outcomes = append(r.Outcomes, fmt.Sprintf("%d of %dx%d", len(got), len(l), len(rt)))
			if !gq.SameSeq(got, want) {
				r.Fail(p.sig(c, c04Mode(got, want)), fmt.Sprintf("%s on t=%s u=%s: got %v, textbook result %v", sql, gq.Render(l), gq.Render(rt), got, want), cs)
			}
		}
	}
	return r
}

func (p *c04) runSched(r *core.CaseResult, c *c04case, sql string) {
	r.BoundDone = p.bound
	cfg := vrt.Config{Sched: p.kinds[c.kind].par, MapOrder: true, Quiet: true}
	vrt.SetQuiet(genql.VerifSelectorMutex())
	// at most one preemption and one map-order deviation per execution (both together allowed)
	gq.MaxSched, gq.MaxMap = 1, 1
	defer func() { gq.MaxSched, gq.MaxMap = 0, 0 }()
	for _, pr := range p.subset {
		l, rt := p.left[pr[0]], p.right[pr[1]]
		want, ok := p.reference(c, l, rt)
		if !ok {
			r.Unspecified++
			continue
		}
		seen := map[string]bool{}
		st := gq.ExploreQuery(cfg, p.bound, 100000,
			func() (map[string]any, string, []genql.QueryOption) {
				return map[string]any{"t": gq.Clone(l), "u": gq.Clone(rt)}, sql, nil
			},
			func(o *gq.Out, prefix []int32) bool {
				cs := map[string]any{"sql": sql, "doc": map[string]any{"t": l, "u": rt}, "choices": prefix}
				if o.Failed() || o.GPanic != "" {
					r.Fail(p.sig(c, "explored:"+o.Status()), fmt.Sprintf("%s on t=%s u=%s choices %v: ended with %s: %v %s %s", sql, gq.Render(l), gq.Render(rt), prefix, o.Status(), o.Err, o.Panic, o.GPanic), cs)
					return false
				}
				got := gq.RenderRows(o.Rows)
				seen[strings.Join(got, ";")] = true
				sort.Strings(got)
				if !gq.SameSeq(got, want) {
					r.Fail(p.sig(c, "explored:"+c04Mode(got, want)), fmt.Sprintf("%s on t=%s u=%s choices %v: got %v, textbook result %v", sql, gq.Render(l), gq.Render(rt), prefix, got, want), cs)
					return false
				}
				return true
			})
		r.Execs += st.Execs
		r.Transitions += st.Transitions
		r.States += int64(len(st.States))
		if st.Capped {
			r.Capped = true
		}
		if st.BoundDone >= 0 && st.BoundDone < r.BoundDone && len(r.Viol) == 0 {
			r.BoundDone = st.BoundDone
		}
		if st.Execs > 1 {
			r.Nontrivial = true
		}
		for k := range seen {
			r.Outcomes = append(r.Outcomes, k)
		}
	}
}

func (p *c04) Meta() core.Meta {
	return core.Meta{
		Rule: "one case per (ON expression: 11 single comparisons in both orientations, 16 AND pairs in both orders, 6 OR pairs, 3-conjunct and repeated-column forms; key columns named differently on the two sides; a representative subset also with table aliases one of which is a prefix of the other, and with the table names themselves as aliases) x (14 join kinds: JOIN/LEFT/RIGHT x auto/HASH_JOIN, STRAIGHT_JOIN, each also PARALLEL), run on every pair of tables of <= 2 (thorough 3) rows over 4 archetypes per side (duplicate keys, two string key columns that collide under textual concatenation) plus one pair of 17 x 13 rows and one pair whose numeric keys differ only far behind the decimal point, and compared as a multiset with the textbook nested-loop join; a representative ON set x all kinds also with the join inside a CTE that is read twice (UNION ALL: the result must be the textbook multiset twice); plus exploration cases: a representative ON set x all kinds on a subset of table pairs under every Go-map iteration order and (PARALLEL) every thread schedule within the deviation bound. non-trivial = the textbook result is a non-empty proper subset of the cross product / more than one execution explored; one pair of tables with int64 keys beyond 2^53 that differ by less than the spacing of doubles (compared and printed exactly by the reference)",
		Assumptions: []string{
			"key columns hold non-NULL values of one scalar kind; ON compares a left column with a right column",
			"outer rows carry NULL under the other alias; the result is compared as a multiset (order is not fixed by the property)",
			"races of the PARALLEL variants are decided by C13 (race build); here the scheduler explores result differences only, with the selector-cache mutex treated as non-scheduling",
		},
		Bounds:     map[string]any{"on_expressions": len(p.ons), "join_kinds": len(p.kinds), "left_tables": len(p.left), "right_tables": len(p.right), "explored_pairs": len(p.subset), "deviation_bound": p.bound},
		Exhaustive: true,
	}
}
