package props

import (
	"fmt"
	"sort"
	"strings"

	"verif/harness/core"
	"verif/harness/gq"
	. "verif/harness/sqlm"
)

// C05: ORDER BY sorts, LIMIT/OFFSET return the exact window and never fail.

type c05case struct {
	keys   []OrderKey
	limit  int
	offset int
	comma  bool
	where  bool
	// distinct: SELECT DISTINCT b (the window then applies to the de-duplicated, possibly sorted, sequence)
	distinct bool
	// form: 0 the statement itself; 1 as the body of a CTE; 2 as a derived table (the window belongs to
	// the nested SELECT); agg: a select list made only of aggregates (a one-row sequence)
	form int
	agg  bool
}

type c05 struct {
	tier   string
	cases  []c05case
	tables [][]any
	hasNil []bool
}

func init() { core.Register("C05", func() core.Prop { return &c05{} }) }

func (p *c05) ID() string { return "C05" }

func (p *c05) Init(tier string) {
	p.tier = tier
	keyLists := [][]OrderKey{
		nil,
		{{"a", false}}, {{"a", true}}, {{"b", false}}, {{"b", true}},
		{{"b", false}, {"a", false}}, {{"b", true}, {"a", false}}, {{"a", false}, {"b", true}}, {{"b", false}, {"a", true}}, {{"a", true}, {"b", true}},
	}
	maxN := 5
	for _, where := range []bool{false, true} {
		for _, kl := range keyLists {
			p.cases = append(p.cases, c05case{keys: kl, limit: -1, offset: -1, where: where})
			for n := 0; n <= maxN; n++ {
				p.cases = append(p.cases, c05case{keys: kl, limit: n, offset: -1, where: where})
				for m := 0; m <= maxN; m++ {
					p.cases = append(p.cases, c05case{keys: kl, limit: n, offset: m, where: where})
					p.cases = append(p.cases, c05case{keys: kl, limit: n, offset: m, comma: true, where: where})
				}
			}
		}
	}
	// bounds near the end of the integer range: offset + limit must not be computed in a way that
	// wraps around
	const big = int(^uint(0) >> 1)
	for _, kl := range [][]OrderKey{nil, {{"a", false}}} {
		for _, w := range [][2]int{{big, -1}, {big, 0}, {big, 1}, {big, 2}, {big - 1, 1}, {big - 1, 2}, {big - 2, 3}, {1 << 62, 1 << 62}, {2, big}, {0, big}, {big, big}, {big, big - 1}, {1 << 32, 1}, {1, 1 << 32}, {1 << 31, 1 << 31}} {
			p.cases = append(p.cases, c05case{keys: kl, limit: w[0], offset: w[1]})
			if w[1] >= 0 {
				p.cases = append(p.cases, c05case{keys: kl, limit: w[0], offset: w[1], comma: true})
			}
		}
	}
	// the window inside a nested SELECT (CTE body, derived table)
	for _, form := range []int{1, 2} {
		for _, kl := range keyLists {
			for _, n := range []int{0, 1, 2, 4} {
				for _, m := range []int{-1, 0, 1, 3} {
					p.cases = append(p.cases, c05case{keys: kl, limit: n, offset: m, form: form})
				}
			}
		}
	}
	// a select list made only of aggregates: the window applies to the one-row result, never to the
	// rows the aggregates range over
	for _, where := range []bool{false, true} {
		for _, n := range []int{-1, 0, 1, 2, 5} {
			for _, m := range []int{-1, 0, 1, 2} {
				if n < 0 && m >= 0 {
					continue
				}
				p.cases = append(p.cases, c05case{limit: n, offset: m, where: where, agg: true})
			}
		}
	}
	for _, kl := range [][]OrderKey{nil, {{"b", false}}, {{"b", true}}} {
		for n := 0; n <= 3; n++ {
			p.cases = append(p.cases, c05case{keys: kl, limit: n, offset: -1, distinct: true})
			for m := 0; m <= 3; m++ {
				p.cases = append(p.cases, c05case{keys: kl, limit: n, offset: m, distinct: true}, c05case{keys: kl, limit: n, offset: m, comma: true, distinct: true})
			}
		}
	}
	arch := []map[string]any{
		{"a": 1.0, "b": "x", "w": 1.0},
		{"a": 2.0, "b": "y", "w": 0.0},
		{"a": 10.0, "b": "x", "w": 1.0},
		{"a": nil, "b": "y", "w": 1.0},
		{"a": 2.0, "b": "x", "w": 1.0},
		// negative numbers and fractions (their order is not the order of their bit patterns or texts)
		{"a": -7.0, "b": "z", "w": 1.0},
		{"a": -0.5, "b": "x", "w": 1.0},
	}
	maxRows := 3
	if tier == "thorough" {
		maxRows = 5
	}
	var rec func(cur []int)
	rec = func(cur []int) {
		rows := []any{}
		hasNil := false
		for i, k := range cur {
			row := gq.CloneMap(arch[k])
			row["id"] = float64(i)
			if row["a"] == nil {
				hasNil = true
			}
			rows = append(rows, row)
		}
		p.tables = append(p.tables, rows)
		p.hasNil = append(p.hasNil, hasNil)
		if len(cur) == maxRows {
			return
		}
		for k := range arch {
			rec(append(append([]int{}, cur...), k))
		}
	}
	rec(nil)
	// sort keys of a native Go integer type (documents built by programs): numbers with different
	// digit counts and negative ones, whose numeric order differs from the order of their texts
	for _, mk := range []func(v int) any{func(v int) any { return int64(v) }, func(v int) any { return v }, func(v int) any { return int32(v) }} {
		for _, vals := range [][]int{{9, 10}, {10, 9, 100}, {-5, -50, 7}, {120, 7, 100, 8, -3}} {
			rows := []any{}
			for i, v := range vals {
				rows = append(rows, map[string]any{"id": float64(i), "a": mk(v), "b": []string{"x", "y"}[i%2], "w": 1.0})
			}
			p.tables = append(p.tables, rows)
			p.hasNil = append(p.hasNil, false)
		}
	}
	// 64-bit integers beyond 2^53 whose neighbours round to the same double (timestamps in nanoseconds)
	for _, vals := range [][]int64{{9007199254740993, 9007199254740992, 9007199254740994}, {1700000000000000003, 1700000000000000001, 1700000000000000002, 5}} {
		rows := []any{}
		for i, v := range vals {
			rows = append(rows, map[string]any{"id": float64(i), "a": v, "b": []string{"x", "y"}[i%2], "w": 1.0})
		}
		p.tables = append(p.tables, rows)
		p.hasNil = append(p.hasNil, false)
	}
	// larger tables (sorting algorithms switch strategy with the length: 12, 50, ...)
	for _, n := range []int{14, 33, 70} {
		rows := []any{}
		hasNil := false
		for i := 0; i < n; i++ {
			row := gq.CloneMap(arch[(i*5+i/3)%len(arch)])
			row["id"] = float64(i)
			if row["a"] == nil {
				hasNil = true
			}
			rows = append(rows, row)
		}
		p.tables = append(p.tables, rows)
		p.hasNil = append(p.hasNil, hasNil)
	}
}

func (p *c05) NumCases() int { return len(p.cases) + 1 }

func (p *c05) sel(c *c05case) *Select {
	s := NewSelect("t", Item{E: Col{"id"}}, Item{E: Col{"a"}}, Item{E: Col{"b"}})
	if c.distinct {
		s = NewSelect("t", Item{E: Col{"b"}})
		s.Distinct = true
	}
	if c.where {
		s.Where = Cmp{"=", Col{"w"}, Lit{V: 1.0}}
	}
	s.OrderBy = c.keys
	s.Limit, s.Offset, s.CommaLim = c.limit, c.offset, c.comma
	return s
}

// sqlOf renders the case: the plain statement, or the statement nested in a CTE / derived table.
func (p *c05) sqlOf(c *c05case) string {
	if c.agg {
		s := "SELECT COUNT(*) AS c, SUM(id) AS s, MAX(a) AS m FROM t"
		if c.where {
			s += " WHERE w = 1"
		}
		if c.limit >= 0 {
			s += fmt.Sprintf(" LIMIT %d", c.limit)
			if c.offset >= 0 {
				s += fmt.Sprintf(" OFFSET %d", c.offset)
			}
		}
		return s
	}
	inner := p.sel(c).SQL()
	switch c.form {
	case 1:
		return "WITH c AS (" + inner + ") SELECT * FROM c"
	case 2:
		return "SELECT `d.id` AS id, `d.a` AS a, `d.b` AS b FROM (" + inner + ") AS d"
	}
	return inner
}

// runAgg: LIMIT / OFFSET on a select list made only of aggregates window the one-row result.
func (p *c05) runAgg(r *core.CaseResult, c *c05case, sql string) {
	for _, rows := range p.tables {
		cnt, sum := 0.0, 0.0
		var mx any
		any1 := false
		for _, row := range rows {
			m := row.(map[string]any)
			if c.where && m["w"].(float64) != 1 {
				continue
			}
			cnt++
			sum += m["id"].(float64)
			any1 = true
			if a, ok := gq.Num(m["a"]); ok && m["a"] != nil && (mx == nil || a > mx.(float64)) {
				mx = a
			}
		}
		one := map[string]any{"c": cnt, "s": nil, "m": mx}
		if any1 {
			one["s"] = sum
		}
		want := window([]string{gq.Render(one)}, c.limit, c.offset)
		doc := map[string]any{"t": gq.Clone(rows)}
		out := gq.Run(doc, sql)
		r.Execs++
		cs := map[string]any{"sql": sql, "doc": doc}
		sig := fmt.Sprintf("C05|aggregates-only|where=%v|", c.where)
		if out.Failed() || out.GPanic != "" {
			r.Fail(sig+out.Status(), fmt.Sprintf("%s on %s: ended with %s: %v%s (must never fail)", sql, gq.Render(rows), out.Status(), out.Err, out.Panic), cs)
			continue
		}
		if got := gq.RenderRows(out.Rows); !gq.SameSeq(got, want) {
			r.Fail(sig+"window", fmt.Sprintf("%s on %s: got %v, want %v (the window applies to the one-row result)", sql, gq.Render(rows), got, want), cs)
			continue
		}
		if len(rows) > 1 {
			r.Nontrivial = true
		}
		r.Outcomes = append(r.Outcomes, fmt.Sprintf("agg/%d", len(want)))
	}
}

func (p *c05) Describe(i int) any {
	if i == len(p.cases) {
		return map[string]any{"kind": "rows changed in place between two executions of one query with WHERE / ORDER BY / LIMIT / OFFSET: 7 queries x every single edit and every pair of edits of the key column (the result grows, shrinks, is reordered); the second execution must equal a fresh query"}
	}
	return map[string]any{"query": p.sqlOf(&p.cases[i]), "tables": fmt.Sprintf("all %d tables of <= %d rows over 7 archetypes (ties, NULL key)", len(p.tables), map[string]int{"quick": 3, "thorough": 5}[p.tier])}
}

func keysString(ks []OrderKey) string {
	if len(ks) == 0 {
		return "none"
	}
	var parts []string
	for _, k := range ks {
		d := "asc"
		if k.Desc {
			d = "desc"
		}
		parts = append(parts, k.Col+":"+d)
	}
	return strings.Join(parts, ",")
}

// cmpKeys orders two rows by the key list; NULL after non-NULL in either direction.
func cmpKeys(x, y map[string]any, ks []OrderKey) int {
	for _, k := range ks {
		a, b := x[k.Col], y[k.Col]
		switch {
		case a == nil && b == nil:
			continue
		case a == nil:
			return 1
		case b == nil:
			return -1
		}
		var c int
		if ai, ok := a.(int64); ok {
			// 64-bit integers are compared exactly (beyond 2^53 neighbours round to one float64)
			if bi, ok := b.(int64); ok {
				c := 0
				switch {
				case ai < bi:
					c = -1
				case ai > bi:
					c = 1
				}
				if c != 0 {
					if k.Desc {
						return -c
					}
					return c
				}
				continue
			}
		}
		if _, isStr := a.(string); !isStr {
			// numbers of any Go numeric type (one type per column), compared by value
			an, _ := gq.Num(a)
			bn, _ := gq.Num(b)
			a, b = an, bn
		}
		switch av := a.(type) {
		case float64:
			bv := b.(float64)
			switch {
			case av < bv:
				c = -1
			case av > bv:
				c = 1
			}
		case string:
			c = strings.Compare(av, b.(string))
		}
		if c != 0 {
			if k.Desc {
				return -c
			}
			return c
		}
	}
	return 0
}

func keyTuple(m map[string]any, ks []OrderKey) string {
	var parts []string
	for _, k := range ks {
		parts = append(parts, gq.Render(m[k.Col]))
	}
	return strings.Join(parts, "|")
}

func (p *c05) RunCase(i int) *core.CaseResult {
	defer withNoise()()
	r := &core.CaseResult{}
	defer withUsage(r, "C05")()
	if i == len(p.cases) {
		runChangedC05(r)
		return r
	}
	c := &p.cases[i]
	sql := p.sqlOf(c)
	ks := keysString(c.keys)
	if c.agg {
		p.runAgg(r, c, sql)
		return r
	}
	if c.form > 0 {
		ks += fmt.Sprintf("|nested=%d", c.form)
	}
	if c.distinct {
		p.runDistinct(r, c, sql)
		return r
	}
	for ti, rows := range p.tables {
		if len(c.keys) > 1 && p.hasNil[ti] {
			continue // NULL placement is only specified for a single sort key
		}
		var kept []map[string]any
		for _, row := range rows {
			m := row.(map[string]any)
			if !c.where || m["w"].(float64) == 1 {
				kept = append(kept, m)
			}
		}
		// reference: fully sorted sequence of key tuples, then the window
		sorted := append([]map[string]any(nil), kept...)
		if len(c.keys) > 0 {
			sort.SliceStable(sorted, func(x, y int) bool { return cmpKeys(sorted[x], sorted[y], c.keys) < 0 })
		}
		m, n := 0, len(sorted)
		if c.offset >= 0 {
			m = c.offset
		}
		if c.limit >= 0 {
			n = c.limit
		}
		lo := m
		if lo > len(sorted) {
			lo = len(sorted)
		}
		hi := len(sorted)
		if n < hi-lo {
			hi = lo + n
		}
		want := sorted[lo:hi]
		window := "none"
		switch {
		case c.limit < 0:
			window = "none"
		case n == 0:
			window = "zero"
		case m >= len(sorted) && len(sorted) > 0 || m > 0 && len(sorted) == 0:
			window = "beyond"
		case n > len(sorted)-m:
			window = "straddle"
		default:
			window = "within"
		}
		sigBase := fmt.Sprintf("C05|order=%s|where=%v|window=%s|", ks, c.where, window)
		doc := map[string]any{"t": gq.Clone(rows)}
		out := gq.Run(doc, sql)
		r.Execs++
		cs := map[string]any{"sql": sql, "doc": doc}
		if out.Failed() || out.GPanic != "" {
			r.Fail(sigBase+out.Status(), fmt.Sprintf("%s on %s: ended with %s: %v%s (must never fail)", sql, gq.Render(rows), out.Status(), out.Err, out.Panic), cs)
			continue
		}
		if len(out.Rows) != len(want) {
			r.Fail(sigBase+"length", fmt.Sprintf("%s on %s: %d rows, want %d: %s", sql, gq.Render(rows), len(out.Rows), len(want), gq.Render(out.Rows)), cs)
			continue
		}
		if len(want) > 1 || (len(want) == 1 && len(sorted) > 1) {
			r.Nontrivial = true
		}
		bad := false
		seen := map[float64]bool{}
		var got []map[string]any
		for k, row := range out.Rows {
			gm, ok := row.(map[string]any)
			if !ok {
				r.Fail(sigBase+"padding", fmt.Sprintf("%s on %s: element %d is %s, not a row", sql, gq.Render(rows), k, gq.Render(row)), cs)
				bad = true
				break
			}
			id, ok := gq.Num(gm["id"])
			if !ok || id < 0 || int(id) >= len(rows) || seen[id] {
				r.Fail(sigBase+"foreign-row", fmt.Sprintf("%s on %s: element %d is %s: not a (new) source row", sql, gq.Render(rows), k, gq.Render(row)), cs)
				bad = true
				break
			}
			seen[id] = true
			src := rows[int(id)].(map[string]any)
			if gq.Render(gm) != gq.Render(map[string]any{"id": src["id"], "a": src["a"], "b": src["b"]}) || (c.where && src["w"].(float64) != 1) {
				r.Fail(sigBase+"foreign-row", fmt.Sprintf("%s on %s: element %d is %s, source row is %s", sql, gq.Render(rows), k, gq.Render(row), gq.Render(src)), cs)
				bad = true
				break
			}
			got = append(got, gm)
		}
		if bad {
			continue
		}
		if len(c.keys) == 0 {
			for k := range got {
				if got[k]["id"].(float64) != want[k]["id"].(float64) {
					r.Fail(sigBase+"window", fmt.Sprintf("%s on %s: ids %s, want source positions %d..%d of the filtered rows", sql, gq.Render(rows), gq.Render(out.Rows), lo, hi-1), cs)
					bad = true
					break
				}
			}
		} else {
			for k := range got {
				if keyTuple(got[k], c.keys) != keyTuple(want[k], c.keys) {
					r.Fail(sigBase+"order", fmt.Sprintf("%s on %s: key tuples of the output %s differ at position %d from the sorted window (want %s there)", sql, gq.Render(rows), gq.Render(out.Rows), k, keyTuple(want[k], c.keys)), cs)
					bad = true
					break
				}
			}
		}
		if !bad {
			r.Outcomes = append(r.Outcomes, fmt.Sprintf("%s/%d of %d", window, len(got), len(sorted)))
		}
	}
	return r
}

// runDistinct: SELECT DISTINCT b [ORDER BY b] LIMIT n [OFFSET m]: the exact window of the
// de-duplicated (first occurrence kept) and then sorted sequence.
func (p *c05) runDistinct(r *core.CaseResult, c *c05case, sql string) {
	for _, rows := range p.tables {
		var seq []string
		seen := map[string]bool{}
		for _, row := range rows {
			b := row.(map[string]any)["b"].(string)
			if !seen[b] {
				seen[b] = true
				seq = append(seq, b)
			}
		}
		if len(c.keys) > 0 {
			sort.Strings(seq)
			if c.keys[0].Desc {
				for i, j := 0, len(seq)-1; i < j; i, j = i+1, j-1 {
					seq[i], seq[j] = seq[j], seq[i]
				}
			}
		}
		lo := 0
		if c.offset > 0 {
			lo = c.offset
		}
		if lo > len(seq) {
			lo = len(seq)
		}
		hi := len(seq)
		if c.limit < hi-lo {
			hi = lo + c.limit
		}
		var want []any
		for _, b := range seq[lo:hi] {
			want = append(want, map[string]any{"b": b})
		}
		doc := map[string]any{"t": gq.Clone(rows)}
		out := gq.Run(doc, sql)
		r.Execs++
		w := gq.Render(want)
		if want == nil {
			w = "[]"
		}
		got := outcome(out)
		if got == "null" {
			got = "[]"
		}
		if len(seq) > 1 && len(want) > 0 {
			r.Nontrivial = true
		}
		r.Outcomes = append(r.Outcomes, fmt.Sprintf("distinct %d/%d", len(want), len(seq)))
		if got != w {
			r.Fail(fmt.Sprintf("C05|distinct|order=%s|window", keysString(c.keys)), fmt.Sprintf("%s on %s: got %s (%v), want %s", sql, gq.Render(rows), got, out.Err, w), map[string]any{"sql": sql, "doc": doc})
		}
	}
}

func (p *c05) Meta() core.Meta {
	return core.Meta{
		Rule: "one case per (key list in {none, a, a DESC, b, b DESC, 5 two-key lists}, limit in {absent,0..5}, offset in {absent,0..5}, both LIMIT spellings, with/without WHERE), the same windows inside a CTE body and a derived table, LIMIT / OFFSET on select lists made only of aggregates (one-row sequence), and (SELECT DISTINCT b with {no key, b, b DESC} x limit 0..3 x offset absent,0..3), run on every table of <= 3 (thorough 5) rows over 7 archetypes (ties on each key, a NULL key; plus three tables of 14, 33 and 70 rows and 12 tables whose numeric key is of a native Go integer type; NULL tables skipped for two-key lists); non-trivial = the expected window has > 1 row or selects 1 of several; LIMIT / OFFSET values at the end of the integer range in both spellings; one changed-between-executions case (7 queries x single and paired in-place edits of the key column between two executions of one Query, against a fresh Query)",
		Assumptions: []string{
			"tie order is not fixed by the property: with ORDER BY the key tuples of the output are compared with those of the reference-sorted window, and the rows must be distinct source rows that passed WHERE",
			"NULL placement is specified for a single sort key only",
		},
		Bounds:     map[string]any{"cases": len(p.cases), "tables": len(p.tables)},
		Exhaustive: true,
	}
}
