package props

import (
	"fmt"
	"strings"

	"github.com/vedadiyan/genql"
	"github.com/vedadiyan/genql/vrt"
	"verif/harness/core"
	"verif/harness/gq"
)

// C20: SETVAR/GETVAR are per-key registers in evaluation order (rows in source order, select-list
// items left to right); the caller's map holds the last values; later queries see them.
//
// Explicit-state search: a state is the content of the shared variable map; a transition is one
// query (select list = sequence of <= 3 register operations) on one table.  Breadth-first from
// several initial maps; a successor is obtained by replaying the shortest path on a fresh map.

type c20op struct {
	alias  bool // the SETVAR item carries an alias (it still adds no column)
	numKey bool // the key is written as a number (SETVAR(7, v) / GETVAR(7)): the register is "7"
	sub    bool // the write happens inside a row-scoped subquery
	set    bool
	key    string
	val    string // SQL text of the value ("1", "a" = column, "'x'")
}

var c20Ops = []c20op{
	{set: true, key: "k1", val: "1"},
	{set: true, key: "k1", val: "a"},
	{set: true, key: "K2", val: "'x'"},
	{set: false, key: "k1"},
	{set: false, key: "K2"},
	{set: true, key: "k1", val: "GETVAR('K2')"},   // an immediate call nested in the value argument
	{set: true, key: "k1", val: "'1'"},            // a string that prints like the number 1
	{sub: true, key: "k1", val: "7"},              // a scalar subquery that writes: (SELECT SETVAR('k1', 7), 1 AS one FROM dual)
	{set: true, key: "k1", val: "ARRAY(a)"},       // a value that is not comparable with == (overwriting such a value with another one)
	{set: false, key: "k1.K2"},                    // a key that is not a single word and is never set: NULL, whatever k1 and K2 hold
	{set: true, key: "K2", val: "a", alias: true}, // SETVAR('K2', a) AS sv
	{set: true, key: "7", val: "a", numKey: true}, // SETVAR(7, a)
	{set: false, key: "7", numKey: true},          // GETVAR(7)
}

type c20query struct {
	ops   []int
	table int
	where bool
	// failure family: every operation wrapped in AWAIT (evaluation deferred to the end of the
	// query, in the same order); a RAISE_WHEN(a = raiseA, 'boom') inserted before operation raiseAt
	await    bool
	nested   bool // the table is given as an array of arrays
	raisePos int  // 0: none; k: before operation k-1 (len(ops)+1: after the last one)
	raiseA   float64
}

// c20fail is one case of the failure family: a select list and a mode.
type c20fail struct {
	ops   []int
	await bool
}

type c20 struct {
	tier    string
	lists   [][]int // all op sequences of length 1..3
	short   [][]int // length 1..2
	tables  [][]any
	inits   []map[string]any
	queries []c20query // the menu of follow-up queries
	depth   int
	fails   []c20fail
	peeks   []string
}

func init() { core.Register("C20", func() core.Prop { return &c20{} }) }

func (p *c20) ID() string { return "C20" }

func (p *c20) Init(tier string) {
	p.tier = tier
	var rec func(cur []int, max int, out *[][]int)
	rec = func(cur []int, max int, out *[][]int) {
		if len(cur) > 0 {
			*out = append(*out, append([]int{}, cur...))
		}
		if len(cur) == max {
			return
		}
		for i := range c20Ops {
			rec(append(cur, i), max, out)
		}
	}
	rec(nil, 3, &p.lists)
	rec(nil, 2, &p.short)
	if tier != "thorough" {
		// quick tier: length-3 lists over the first 8 operations only (the later ones - uncomparable
		// values, odd keys, aliases - appear in every list of length <= 2)
		var kept [][]int
		for _, l := range p.lists {
			late := false
			for _, oi := range l {
				if oi >= 8 {
					late = true
				}
			}
			if len(l) < 3 || !late {
				kept = append(kept, l)
			}
		}
		p.lists = kept
	}
	// simplest first
	for _, l := range []*[][]int{&p.lists, &p.short} {
		s := *l
		for i := 1; i < len(s); i++ {
			for j := i; j > 0 && len(s[j]) < len(s[j-1]); j-- {
				s[j], s[j-1] = s[j-1], s[j]
			}
		}
	}
	p.tables = [][]any{
		{},
		{map[string]any{"a": 10.0}},
		{map[string]any{"a": 10.0}, map[string]any{"a": 20.0}},
		{map[string]any{"a": 20.0}, map[string]any{"a": 10.0}, map[string]any{"a": 30.0}},
	}
	p.inits = []map[string]any{{}, {"k1": 5.0}, {"K2": "y", "k3": true}}
	p.depth = 2
	// follow-up queries: lists of <= 2 operations over the first 10 operations (the later ones are
	// covered as first queries and in every list of length <= 2 of the first level)
	var menu [][]int
	for _, l := range p.short {
		late := false
		for _, oi := range l {
			if oi >= 10 {
				late = true
			}
		}
		if !late {
			menu = append(menu, l)
		}
	}
	if tier == "thorough" {
		p.depth = 3
	}
	for _, l := range p.short {
		sub := false
		for _, oi := range l {
			if c20Ops[oi].sub || strings.Contains(c20Ops[oi].val, "GETVAR") {
				sub = true
			}
		}
		if sub {
			continue
		}
		p.fails = append(p.fails, c20fail{ops: l}, c20fail{ops: l, await: true})
	}
	p.peeks = []string{
		"SELECT a, SETVAR('k1', a), SPINASYNC.HPEEK('k1'), GETVAR('k1') AS g FROM t",
		"SELECT a, SETVAR('k1', a), ASYNC.HPEEK('K2') AS p, GETVAR('k1') AS g FROM t",
		"SELECT a, GETVAR('k1') AS g0, SPINASYNC.HPOKE('K2', a), SETVAR('k1', a), GETVAR('k1') AS g FROM t",
	}
	for _, l := range menu {
		for t := range p.tables {
			for _, w := range []bool{false, true} {
				if w && t < 2 {
					continue
				}
				p.queries = append(p.queries, c20query{ops: l, table: t, where: w})
			}
		}
	}
}

func (p *c20) NumCases() int { return len(p.lists) + len(p.fails) + len(p.peeks) + 1 }

func (p *c20) sql(q *c20query) string {
	var items []string
	wrap := func(e string) string {
		if q.await {
			return "AWAIT(" + e + ")"
		}
		return e
	}
	for i, oi := range q.ops {
		o := c20Ops[oi]
		if i+1 == q.raisePos {
			items = append(items, wrap(fmt.Sprintf("RAISE_WHEN(a = %v, 'boom')", q.raiseA)))
		}
		if q.await && !o.sub {
			if o.set {
				items = append(items, fmt.Sprintf("AWAIT(SETVAR('%s', %s))", o.key, o.val))
			} else {
				items = append(items, fmt.Sprintf("AWAIT(GETVAR('%s')) AS g%d", o.key, i))
			}
			continue
		}
		if o.sub {
			items = append(items, fmt.Sprintf("(SELECT SETVAR('%s', %s), 1 AS one FROM dual) AS s%d", o.key, o.val, i))
		} else if o.set {
			key := "'" + o.key + "'"
			if o.numKey {
				key = o.key
			}
			it := fmt.Sprintf("SETVAR(%s, %s)", key, o.val)
			if o.alias {
				it += fmt.Sprintf(" AS sv%d", i)
			}
			items = append(items, it)
		} else {
			key := "'" + o.key + "'"
			if o.numKey {
				key = o.key
			}
			items = append(items, fmt.Sprintf("GETVAR(%s) AS g%d", key, i))
		}
	}
	if q.raisePos == len(q.ops)+1 {
		items = append(items, wrap(fmt.Sprintf("RAISE_WHEN(a = %v, 'boom')", q.raiseA)))
	}
	s := "SELECT " + strings.Join(items, ", ") + " FROM t"
	if q.where {
		s += " WHERE a > 10"
	}
	return s
}

func (p *c20) Describe(i int) any {
	if i == len(p.lists)+len(p.fails)+len(p.peeks) {
		return map[string]any{"kind": "numeric keys: every ordered pair of distinct keys over {0, 0.5, 1, 1.5, 2, 2.5, -1, -1.5, 1000000, 1000000.5, 1e21, 7} written as literals and read back in the same and in a later query, and a table whose rows name their key in a column: distinct numbers are distinct registers"}
	}
	if i >= len(p.lists)+len(p.fails) {
		return map[string]any{"query": p.peeks[i-len(p.lists)-len(p.fails)], "explored": "every schedule within 2 (thorough 3) preemptions on tables of 1-3 rows"}
	}
	if i >= len(p.lists) {
		f := p.fails[i-len(p.lists)]
		q := c20query{ops: f.ops, table: 2, await: f.await, raisePos: 1, raiseA: 20}
		return map[string]any{"query_shape": p.sql(&q), "explored": "RAISE_WHEN at every position of the select list x firing on every row or none x 3 tables x 3 initial maps; followed by a query that reads both keys"}
	}
	q := c20query{ops: p.lists[i], table: 2}
	return map[string]any{"first_query": p.sql(&q), "then": fmt.Sprintf("breadth-first over %d follow-up queries (op sequences of length <= 2 x 4 tables x with/without WHERE) to depth %d from every distinct reached state, starting from 3 initial maps", len(p.queries), p.depth)}
}

// model applies q to vars (in place) and returns the expected rendered rows.
func (p *c20) model(q *c20query, vars map[string]any) []string {
	rows, _ := p.modelF(q, vars)
	return rows
}

// modelF is model for queries that may raise: evaluation stops at the first RAISE_WHEN that fires
// (failed = true, no rows); the writes made before it stay.
func (p *c20) modelF(q *c20query, vars map[string]any) (out []string, failed bool) {
	for _, r := range p.tables[q.table] {
		row := r.(map[string]any)
		if q.where && !(row["a"].(float64) > 10) {
			continue
		}
		o := map[string]any{}
		for i, oi := range q.ops {
			op := c20Ops[oi]
			if i+1 == q.raisePos && row["a"] == q.raiseA {
				return nil, true
			}
			if op.sub {
				vars[op.key] = 7.0
				o[fmt.Sprintf("s%d", i)] = map[string]any{"one": 1.0}
				continue
			}
			if op.set {
				var v any
				switch op.val {
				case "1":
					v = 1.0
				case "a":
					v = row["a"]
				case "'x'":
					v = "x"
				case "'1'":
					v = "1"
				case "GETVAR('K2')":
					v = vars["K2"]
				case "ARRAY(a)":
					v = []any{row["a"]}
				}
				vars[op.key] = v
			} else {
				o[fmt.Sprintf("g%d", i)] = vars[op.key] // missing -> nil
			}
		}
		if q.raisePos == len(q.ops)+1 && row["a"] == q.raiseA {
			return nil, true
		}
		out = append(out, gq.Render(o))
	}
	return out, false
}

// step runs q on the real engine with the shared map.
func (p *c20) step(q *c20query, vars map[string]any) *gq.Out {
	doc := map[string]any{"t": gq.Clone(p.tables[q.table])}
	if q.nested {
		// the same rows as an array of arrays (first row alone, the rest together): evaluation order
		// is still the rows' order
		rows := gq.Clone(p.tables[q.table]).([]any)
		if len(rows) > 0 {
			doc["t"] = []any{rows[:1], rows[1:]}
		}
	}
	return gq.Run(doc, p.sql(q), genql.WithVars(vars))
}

// flatten turns the nested result of a nested source back into the sequence of rows.
func flatten(rows []any) []any {
	var out []any
	for _, x := range rows {
		if sub, ok := x.([]any); ok {
			out = append(out, flatten(sub)...)
		} else {
			out = append(out, x)
		}
	}
	return out
}

func init() {
	// HPEEK(k): a reader running next to the query's own evaluation; HPOKE(k, v): a writer
	genql.RegisterFunction("hpeek", func(q *genql.Query, cur genql.Map, fo *genql.FunctionOptions, args []any) (any, error) {
		vrt.Yield()
		return genql.GetVarFunc(q, cur, fo, args)
	})
	genql.RegisterFunction("hpoke", func(q *genql.Query, cur genql.Map, fo *genql.FunctionOptions, args []any) (any, error) {
		vrt.Yield()
		return genql.SetVarFunc(q, cur, fo, args)
	})
}

// runFail: a select list with a RAISE_WHEN at every position, firing on every row (or none), with
// every operation evaluated immediately or deferred with AWAIT: evaluation stops at the failure, the
// writes made before it are in the caller's map, and a later query observes exactly those.
func (p *c20) runFail(r *core.CaseResult, f *c20fail) {
	follow := c20query{ops: []int{3, 4}, table: 1}
	mode := "immediate"
	if f.await {
		mode = "deferred"
	}
	for init := range p.inits {
		for t := 1; t < len(p.tables); t++ {
			as := []float64{99}
			for _, row := range p.tables[t] {
				as = append(as, row.(map[string]any)["a"].(float64))
			}
			for pos := 1; pos <= len(f.ops)+1; pos++ {
				for ai, a := range as {
					nested := ai%2 == 1 && t > 1 // every other failing row on the multi-row tables: nested source
					q := c20query{ops: f.ops, table: t, await: f.await, raisePos: pos, raiseA: a, nested: nested}
					impl, mod := gq.CloneMap(p.inits[init]), gq.CloneMap(p.inits[init])
					want, failed := p.modelF(&q, mod)
					out := p.step(&q, impl)
					r.Execs++
					r.Transitions++
					cs := map[string]any{"initial_vars": p.inits[init], "query": p.sql(&q), "table": p.tables[t]}
					what := fmt.Sprintf("vars %s, %s on %s", gq.Render(p.inits[init]), p.sql(&q), gq.Render(p.tables[t]))
					if out.Panic != "" || out.GPanic != "" {
						r.Fail("C20|failure-"+mode+"|panic", fmt.Sprintf("%s: %s%s", what, out.Panic, out.GPanic), cs)
						continue
					}
					if failed != (out.Err != nil) {
						r.Fail("C20|failure-"+mode+"|"+out.Status(), fmt.Sprintf("%s: ended with %s (%v), the model says failed=%v", what, out.Status(), out.Err, failed), cs)
						continue
					}
					if !failed {
						if nested {
							out.Rows = flatten(out.Rows)
						}
						if got := gq.RenderRows(out.Rows); !gq.SameSeq(got, want) {
							r.Fail("C20|failure-"+mode+"|rows", fmt.Sprintf("%s: rows %v, register model %v", what, got, want), cs)
							continue
						}
					} else {
						r.Nontrivial = true
					}
					if gq.Render(impl) != gq.Render(mod) {
						r.Fail("C20|failure-"+mode+"|final-map", fmt.Sprintf("%s (failed=%v): caller's map is %s, register model (writes up to the failure) %s", what, failed, gq.Render(impl), gq.Render(mod)), cs)
						continue
					}
					want2 := p.model(&follow, mod)
					out2 := p.step(&follow, impl)
					r.Execs++
					if out2.Failed() || !gq.SameSeq(gq.RenderRows(out2.Rows), want2) {
						r.Fail("C20|failure-"+mode+"|later-query", fmt.Sprintf("%s, then %s: %s %v rows %v, register model %v", what, p.sql(&follow), out2.Status(), out2.Err, gq.RenderRows(out2.Rows), want2), cs)
						continue
					}
					r.Outcomes = append(r.Outcomes, fmt.Sprintf("%v:%s", failed, gq.Render(impl)))
				}
			}
		}
	}
	r.States = int64(len(r.Outcomes))
}

// runPeek: the query's own reads and writes next to ASYNC / SPINASYNC calls that read or write the
// same store: under every schedule within the bound, GETVAR right after SETVAR on the evaluating
// goroutine returns what was just written, and the caller's map ends with the last write.
func (p *c20) runPeek(r *core.CaseResult, sql string) {
	bound := 2
	if p.tier == "thorough" {
		bound = 3
	}
	r.BoundDone = bound
	for t := 1; t < len(p.tables); t++ {
		var vars map[string]any
		cfg := vrt.Config{Sched: true, Quiet: true}
		vrt.SetQuiet(genql.VerifSelectorMutex())
		st := gq.ExploreQuery(cfg, bound, 400000,
			func() (map[string]any, string, []genql.QueryOption) {
				vars = map[string]any{"K2": "seed"}
				return map[string]any{"t": gq.Clone(p.tables[t])}, sql, []genql.QueryOption{genql.WithVars(vars), genql.UnReportedErrors(func(error) {})}
			},
			func(o *gq.Out, prefix []int32) bool {
				cs := map[string]any{"sql": sql, "table": p.tables[t], "choices": prefix}
				what := fmt.Sprintf("%s on %s, schedule %v", sql, gq.Render(p.tables[t]), prefix)
				if o.Failed() || o.GPanic != "" {
					r.Fail("C20|concurrent-reader|"+o.Status(), fmt.Sprintf("%s: %s %v %s%s", what, o.Status(), o.Err, o.Panic, o.GPanic), cs)
					return false
				}
				if len(o.Rows) != len(p.tables[t]) {
					r.Fail("C20|concurrent-reader|rows", fmt.Sprintf("%s: %d rows", what, len(o.Rows)), cs)
					return false
				}
				var prev any
				for k, row := range o.Rows {
					m, _ := row.(map[string]any)
					a := p.tables[t][k].(map[string]any)["a"]
					if m == nil || m["a"] != a || m["g"] != a {
						r.Fail("C20|concurrent-reader|stale-read", fmt.Sprintf("%s: row %d is %s: GETVAR('k1') right after SETVAR('k1', %v) must return %v", what, k, gq.Render(row), a, a), cs)
						return false
					}
					if g0, ok := m["g0"]; ok && g0 != prev {
						r.Fail("C20|concurrent-reader|stale-read", fmt.Sprintf("%s: row %d is %s: GETVAR('k1') before the row's write must return the previous row's value %v", what, k, gq.Render(row), prev), cs)
						return false
					}
					if pv, ok := m["p"]; ok && pv != "seed" {
						r.Fail("C20|concurrent-reader|stale-read", fmt.Sprintf("%s: row %d is %s: nobody writes K2, a concurrent GETVAR('K2') must return \"seed\"", what, k, gq.Render(row)), cs)
						return false
					}
					if _, ok := m["SETVAR('k1', a)"]; ok || len(m) > 4 {
						r.Fail("C20|concurrent-reader|setvar-column", fmt.Sprintf("%s: row %d is %s", what, k, gq.Render(row)), cs)
						return false
					}
					prev = a
				}
				if vars["k1"] != prev {
					r.Fail("C20|concurrent-reader|final-map", fmt.Sprintf("%s: caller's map is %s, the last write to k1 stored %v", what, gq.Render(vars), prev), cs)
					return false
				}
				return true
			})
		r.Execs += st.Execs
		r.Transitions += st.Transitions
		r.States += int64(len(st.States))
		if st.Capped {
			r.Capped = true
		}
		if st.Execs > 1 {
			r.Nontrivial = true
		}
	}
}

// runNumericKeys: keys written as numbers.  Two different numbers are two registers, whatever text
// the key is kept under in the caller's map (which is not compared here).
func (p *c20) runNumericKeys(r *core.CaseResult) {
	r.Nontrivial = true
	keys := []string{"0", "0.5", "1", "1.5", "2", "2.5", "-1", "-1.5", "1000000", "1000000.5", "1e21", "7"}
	doc := map[string]any{"t": []any{map[string]any{"id": 1.0}}}
	for _, k1 := range keys {
		for _, k2 := range keys {
			if k1 == k2 {
				continue
			}
			vars := map[string]any{}
			sql := fmt.Sprintf("SELECT GETVAR(%s) AS b1, SETVAR(%s, 'A'), GETVAR(%s) AS m2, SETVAR(%s, 'B'), GETVAR(%s) AS g1, GETVAR(%s) AS g2 FROM t", k1, k1, k2, k2, k1, k2)
			o := gq.Run(gq.CloneMap(doc), sql, genql.WithVars(vars))
			r.Execs++
			cs := map[string]any{"sql": sql}
			want := gq.Render([]any{map[string]any{"b1": nil, "m2": nil, "g1": "A", "g2": "B"}})
			if o.Err != nil || o.Panic != "" || gq.Render(o.Rows) != want {
				r.Fail("C20|numeric-keys|rows", fmt.Sprintf("%s: %s %v %s rows %s, register model %s", sql, o.Status(), o.Err, o.Panic, gq.Render(o.Rows), want), cs)
				continue
			}
			sql2 := fmt.Sprintf("SELECT GETVAR(%s) AS g1, GETVAR(%s) AS g2 FROM t", k1, k2)
			o2 := gq.Run(gq.CloneMap(doc), sql2, genql.WithVars(vars))
			r.Execs++
			want2 := gq.Render([]any{map[string]any{"g1": "A", "g2": "B"}})
			if o2.Err != nil || gq.Render(o2.Rows) != want2 {
				r.Fail("C20|numeric-keys|later-query", fmt.Sprintf("%s, then %s: %v rows %s, register model %s", sql, sql2, o2.Err, gq.Render(o2.Rows), want2), map[string]any{"sql": sql, "then": sql2})
			}
		}
	}
	// the key taken from a column: one register per distinct number, rows in source order
	buckets := []float64{0.5, 1, 1.5, 2, 2.5, 2, 0.5, 1000000, 1000000.5, 3}
	rows := []any{}
	model := map[float64]any{}
	var want []any
	for i, b := range buckets {
		rows = append(rows, map[string]any{"id": float64(i), "b": b})
		before := model[b]
		model[b] = float64(i)
		want = append(want, map[string]any{"id": float64(i), "before": before, "after": float64(i)})
	}
	vars := map[string]any{}
	sql := "SELECT id, GETVAR(b) AS before, SETVAR(b, id), GETVAR(b) AS after FROM t"
	o := gq.Run(map[string]any{"t": rows}, sql, genql.WithVars(vars))
	r.Execs++
	if o.Err != nil || gq.Render(o.Rows) != gq.Render(want) {
		r.Fail("C20|numeric-keys|column-key", fmt.Sprintf("%s on b = %v: %v rows %s, register model %s", sql, buckets, o.Err, gq.Render(o.Rows), gq.Render(want)), map[string]any{"sql": sql, "b": buckets})
	}
}

func (p *c20) RunCase(i int) *core.CaseResult {
	r := &core.CaseResult{}
	if i == len(p.lists)+len(p.fails)+len(p.peeks) {
		p.runNumericKeys(r)
		return r
	}
	if i >= len(p.lists)+len(p.fails) {
		p.runPeek(r, p.peeks[i-len(p.lists)-len(p.fails)])
		return r
	}
	if i >= len(p.lists) {
		p.runFail(r, &p.fails[i-len(p.lists)])
		return r
	}
	type node struct {
		init int
		path []c20query
	}
	seen := map[string]bool{}
	var frontier []node
	// replay path on a fresh map (implementation and model side by side); returns false on violation
	replay := func(n node, check bool) (map[string]any, map[string]any, bool) {
		impl := gq.CloneMap(p.inits[n.init])
		mod := gq.CloneMap(p.inits[n.init])
		for k := range n.path {
			q := &n.path[k]
			want := p.model(q, mod)
			out := p.step(q, impl)
			r.Execs++
			if !check && k < len(n.path)-1 {
				continue
			}
			var sqls []string
			for j := 0; j <= k; j++ {
				sqls = append(sqls, fmt.Sprintf("%s on %s", p.sql(&n.path[j]), gq.Render(p.tables[n.path[j].table])))
			}
			cs := map[string]any{"initial_vars": p.inits[n.init], "queries": sqls}
			kind := "first-query"
			if k > 0 {
				kind = "later-query"
			}
			if out.Failed() || out.GPanic != "" {
				r.Fail("C20|"+kind+"|"+out.Status(), fmt.Sprintf("vars %s, queries %v: last query ended with %s: %v%s", gq.Render(p.inits[n.init]), sqls, out.Status(), out.Err, out.Panic), cs)
				return nil, nil, false
			}
			got := gq.RenderRows(out.Rows)
			if !gq.SameSeq(got, want) {
				r.Fail("C20|"+kind+"|rows", fmt.Sprintf("vars %s, queries %v: rows %v, register model %v", gq.Render(p.inits[n.init]), sqls, got, want), cs)
				return nil, nil, false
			}
			if gq.Render(impl) != gq.Render(mod) {
				r.Fail("C20|"+kind+"|final-map", fmt.Sprintf("vars %s, queries %v: caller's map is %s, register model %s", gq.Render(p.inits[n.init]), sqls, gq.Render(impl), gq.Render(mod)), cs)
				return nil, nil, false
			}
		}
		return impl, mod, true
	}
	// level 1: the case's select list on every table / WHERE from every initial map
	for init := range p.inits {
		for t := range p.tables {
			for _, w := range []bool{false, true} {
				if w && t < 2 {
					continue
				}
				n := node{init: init, path: []c20query{{ops: p.lists[i], table: t, where: w}}}
				impl, _, ok := replay(n, true)
				if !ok {
					continue
				}
				r.Transitions++
				key := gq.Render(impl)
				r.Outcomes = append(r.Outcomes, key)
				if !seen[key] {
					seen[key] = true
					frontier = append(frontier, n)
				}
				if len(impl) > 0 && t > 0 {
					r.Nontrivial = true
				}
			}
		}
	}
	for d := 2; d <= p.depth; d++ {
		var next []node
		for _, n := range frontier {
			for qi := range p.queries {
				nn := node{init: n.init, path: append(append([]c20query{}, n.path...), p.queries[qi])}
				impl, _, ok := replay(nn, false)
				if !ok {
					continue
				}
				r.Transitions++
				key := gq.Render(impl)
				if !seen[key] {
					seen[key] = true
					next = append(next, nn)
					r.Outcomes = append(r.Outcomes, key)
				}
			}
		}
		frontier = next
	}
	r.States = int64(len(seen))
	p.reExec(r, i)
	return r
}

// reExec: "a later query given the same map observes those values" also holds for a Query object
// that is executed again after another query (or the caller) has written the shared map.
func (p *c20) reExec(r *core.CaseResult, i int) {
	reads := false
	for _, oi := range p.lists[i] {
		if !c20Ops[oi].set && !c20Ops[oi].sub {
			reads = true
		}
	}
	if !reads {
		return
	}
	writers := []c20query{{ops: []int{0}, table: 1}, {ops: []int{2, 1}, table: 2}, {ops: []int{6}, table: 1}}
	for t := 1; t < len(p.tables); t++ {
		for wi := range writers {
			first := c20query{ops: p.lists[i], table: t}
			impl, mod := map[string]any{"K2": "seed"}, map[string]any{"K2": "seed"}
			var got1, got2 []string
			var fail string
			vrt.Run(gq.Seq, nil, func() {
				defer func() {
					if rec := recover(); rec != nil {
						fail = fmt.Sprint(rec)
					}
				}()
				q, err := genql.New(map[string]any{"t": gq.Clone(p.tables[t])}, p.sql(&first), genql.WithVars(impl))
				if err != nil {
					fail = err.Error()
					return
				}
				rows, err := q.Exec()
				if err != nil {
					fail = err.Error()
					return
				}
				got1 = gq.RenderRows(rows)
				w, err := genql.New(map[string]any{"t": gq.Clone(p.tables[writers[wi].table])}, p.sql(&writers[wi]), genql.WithVars(impl))
				if err == nil {
					_, err = w.Exec()
				}
				if err != nil {
					fail = err.Error()
					return
				}
				impl["k1"] = "caller" // and a write by the caller itself
				rows, err = q.Exec()
				if err != nil {
					fail = err.Error()
					return
				}
				got2 = gq.RenderRows(rows)
			})
			r.Execs += 3
			want1 := p.model(&first, mod)
			p.model(&writers[wi], mod)
			mod["k1"] = "caller"
			want2 := p.model(&first, mod)
			cs := map[string]any{"query": p.sql(&first), "table": p.tables[t], "writer": p.sql(&writers[wi])}
			if fail != "" {
				r.Fail("C20|re-exec|failed", fmt.Sprintf("%s: %s", p.sql(&first), fail), cs)
				continue
			}
			if !gq.SameSeq(got1, want1) || !gq.SameSeq(got2, want2) || gq.Render(impl) != gq.Render(mod) {
				r.Fail("C20|re-exec|stale", fmt.Sprintf("%s executed, then %s and a write by the caller, then the first Query executed again: rows %v then %v (map %s); register model %v then %v (map %s)", p.sql(&first), p.sql(&writers[wi]), got1, got2, gq.Render(impl), want1, want2, gq.Render(mod)), cs)
			}
		}
	}
}

func (p *c20) Meta() core.Meta {
	return core.Meta{
		Rule:        "explicit-state search over the shared variable map: one case per first select list (every sequence of 1..3 operations (quick: length 3 only over the first 8) over {SETVAR(k1,1), SETVAR(k1,a), SETVAR(K2,'x'), GETVAR(k1), GETVAR(K2), SETVAR(k1,GETVAR(K2)), SETVAR(k1,'1'), (SELECT SETVAR(k1,7), 1 AS one FROM dual), SETVAR(k1,ARRAY(a)), GETVAR('k1.K2'), SETVAR(K2,a) AS alias, SETVAR(7,a), GETVAR(7)}) run on 4 tables (0-3 rows) with/without WHERE from 3 initial maps; every distinct reached map is expanded breadth-first by every follow-up query (sequences of <= 2 operations x tables x WHERE) to depth 2 (thorough 3); a successor is the shortest path replayed on a fresh map plus one query; every step is compared with a sequential register model (rows, absence of SETVAR columns, caller's map); every first query that reads is also executed, followed by another query and a write by the caller on the same map, and then executed again as the same Query object. Failure family: every select list of <= 2 plain operations with a RAISE_WHEN(a = x, 'boom') at every position, firing on every row or on none, every operation evaluated immediately or deferred with AWAIT, on 3 tables (the multi-row ones also given as arrays of arrays) from 3 initial maps: the query fails iff the model's evaluation reaches a firing RAISE_WHEN, the caller's map holds exactly the writes evaluated before it, and a later query reads them. Concurrent family: 3 queries whose select list runs ASYNC / SPINASYNC calls that read (GetVarFunc) or write another key of (SetVarFunc) the same store next to the query's own SETVAR / GETVAR, under every schedule within 2 (thorough 3) preemptions: a GETVAR right after a SETVAR on the evaluating goroutine returns the value just written. non-trivial = the first query ran on a non-empty table and left a non-empty map; one numeric-keys case (every ordered pair of distinct keys over 12 numbers incl. fractions, negatives and 10^6, written and read back in the same and a later query; keys taken from a column)",
		Assumptions: []string{"evaluation order = rows in source order, select-list items left to right (the property's statement)", "values stored are numbers and strings; keys are string literals", "evaluation stops at the first failing step: a SETVAR that comes after it in evaluation order (later item, later row; for AWAIT-deferred lists the same order, at the end of the query) is not evaluated and writes nothing"},
		Bounds:      map[string]any{"first_lists": len(p.lists), "followup_queries": len(p.queries), "depth": p.depth},
		Exhaustive:  true,
	}
}
