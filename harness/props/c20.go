package props

import (
	"fmt"
	"strings"

	"github.com/vedadiyan/genql"
	"verif/harness/core"
	"verif/harness/gq"
)

// C20: SETVAR/GETVAR are per-key registers in evaluation order (rows in source order, select-list
// items left to right); the caller's map holds the last values; later queries see them.
//
// Explicit-state search: a state is the content of the shared variable map; a transition is one
// query (select list = sequence of <= 3 register operations) on one table.  Breadth-first from
// several initial maps; a successor is obtained by replaying the shortest path on a fresh map.

type c20op struct {
	set bool
	key string
	val string // SQL text of the value ("1", "a" = column, "'x'")
}

var c20Ops = []c20op{
	{set: true, key: "k1", val: "1"},
	{set: true, key: "k1", val: "a"},
	{set: true, key: "K2", val: "'x'"},
	{set: false, key: "k1"},
	{set: false, key: "K2"},
	{set: true, key: "k1", val: "GETVAR('K2')"}, // an immediate call nested in the value argument
	{set: true, key: "k1", val: "'1'"},          // a string that prints like the number 1
}

type c20query struct {
	ops   []int
	table int
	where bool
}

type c20 struct {
	tier    string
	lists   [][]int // all op sequences of length 1..3
	short   [][]int // length 1..2
	tables  [][]any
	inits   []map[string]any
	queries []c20query // the menu of follow-up queries
	depth   int
}

func init() { core.Register("C20", func() core.Prop { return &c20{} }) }

func (p *c20) ID() string { return "C20" }

func (p *c20) Init(tier string) {
	p.tier = tier
	var rec func(cur []int, max int, out *[][]int)
	rec = func(cur []int, max int, out *[][]int) {
		if len(cur) > 0 {
			*out = append(*out, append([]int{}, cur...))
		}
		if len(cur) == max {
			return
		}
		for i := range c20Ops {
			rec(append(cur, i), max, out)
		}
	}
	rec(nil, 3, &p.lists)
	rec(nil, 2, &p.short)
	// simplest first
	for _, l := range []*[][]int{&p.lists, &p.short} {
		s := *l
		for i := 1; i < len(s); i++ {
			for j := i; j > 0 && len(s[j]) < len(s[j-1]); j-- {
				s[j], s[j-1] = s[j-1], s[j]
			}
		}
	}
	p.tables = [][]any{
		{},
		{map[string]any{"a": 10.0}},
		{map[string]any{"a": 10.0}, map[string]any{"a": 20.0}},
		{map[string]any{"a": 20.0}, map[string]any{"a": 10.0}, map[string]any{"a": 30.0}},
	}
	p.inits = []map[string]any{{}, {"k1": 5.0}, {"K2": "y", "k3": true}}
	p.depth = 2
	menu := p.short
	if tier == "thorough" {
		p.depth = 3
	}
	for _, l := range menu {
		for t := range p.tables {
			for _, w := range []bool{false, true} {
				if w && t < 2 {
					continue
				}
				p.queries = append(p.queries, c20query{ops: l, table: t, where: w})
			}
		}
	}
}

func (p *c20) NumCases() int { return len(p.lists) }

func (p *c20) sql(q *c20query) string {
	var items []string
	for i, oi := range q.ops {
		o := c20Ops[oi]
		if o.set {
			items = append(items, fmt.Sprintf("SETVAR('%s', %s)", o.key, o.val))
		} else {
			items = append(items, fmt.Sprintf("GETVAR('%s') AS g%d", o.key, i))
		}
	}
	s := "SELECT " + strings.Join(items, ", ") + " FROM t"
	if q.where {
		s += " WHERE a > 10"
	}
	return s
}

func (p *c20) Describe(i int) any {
	q := c20query{ops: p.lists[i], table: 2}
	return map[string]any{"first_query": p.sql(&q), "then": fmt.Sprintf("breadth-first over %d follow-up queries (op sequences of length <= 2 x 4 tables x with/without WHERE) to depth %d from every distinct reached state, starting from 3 initial maps", len(p.queries), p.depth)}
}

// model applies q to vars (in place) and returns the expected rendered rows.
func (p *c20) model(q *c20query, vars map[string]any) []string {
	var out []string
	for _, r := range p.tables[q.table] {
		row := r.(map[string]any)
		if q.where && !(row["a"].(float64) > 10) {
			continue
		}
		o := map[string]any{}
		for i, oi := range q.ops {
			op := c20Ops[oi]
			if op.set {
				var v any
				switch op.val {
				case "1":
					v = 1.0
				case "a":
					v = row["a"]
				case "'x'":
					v = "x"
				case "'1'":
					v = "1"
				case "GETVAR('K2')":
					v = vars["K2"]
				}
				vars[op.key] = v
			} else {
				o[fmt.Sprintf("g%d", i)] = vars[op.key] // missing -> nil
			}
		}
		out = append(out, gq.Render(o))
	}
	return out
}

// step runs q on the real engine with the shared map.
func (p *c20) step(q *c20query, vars map[string]any) *gq.Out {
	doc := map[string]any{"t": gq.Clone(p.tables[q.table])}
	return gq.Run(doc, p.sql(q), genql.WithVars(vars))
}

func (p *c20) RunCase(i int) *core.CaseResult {
	r := &core.CaseResult{}
	type node struct {
		init int
		path []c20query
	}
	seen := map[string]bool{}
	var frontier []node
	// replay path on a fresh map (implementation and model side by side); returns false on violation
	replay := func(n node, check bool) (map[string]any, map[string]any, bool) {
		impl := gq.CloneMap(p.inits[n.init])
		mod := gq.CloneMap(p.inits[n.init])
		for k := range n.path {
			q := &n.path[k]
			want := p.model(q, mod)
			out := p.step(q, impl)
			r.Execs++
			if !check && k < len(n.path)-1 {
				continue
			}
			var sqls []string
			for j := 0; j <= k; j++ {
				sqls = append(sqls, fmt.Sprintf("%s on %s", p.sql(&n.path[j]), gq.Render(p.tables[n.path[j].table])))
			}
			cs := map[string]any{"initial_vars": p.inits[n.init], "queries": sqls}
			kind := "first-query"
			if k > 0 {
				kind = "later-query"
			}
			if out.Failed() || out.GPanic != "" {
				r.Fail("C20|"+kind+"|"+out.Status(), fmt.Sprintf("vars %s, queries %v: last query ended with %s: %v%s", gq.Render(p.inits[n.init]), sqls, out.Status(), out.Err, out.Panic), cs)
				return nil, nil, false
			}
			got := gq.RenderRows(out.Rows)
			if !gq.SameSeq(got, want) {
				r.Fail("C20|"+kind+"|rows", fmt.Sprintf("vars %s, queries %v: rows %v, register model %v", gq.Render(p.inits[n.init]), sqls, got, want), cs)
				return nil, nil, false
			}
			if gq.Render(impl) != gq.Render(mod) {
				r.Fail("C20|"+kind+"|final-map", fmt.Sprintf("vars %s, queries %v: caller's map is %s, register model %s", gq.Render(p.inits[n.init]), sqls, gq.Render(impl), gq.Render(mod)), cs)
				return nil, nil, false
			}
		}
		return impl, mod, true
	}
	// level 1: the case's select list on every table / WHERE from every initial map
	for init := range p.inits {
		for t := range p.tables {
			for _, w := range []bool{false, true} {
				if w && t < 2 {
					continue
				}
				n := node{init: init, path: []c20query{{ops: p.lists[i], table: t, where: w}}}
				impl, _, ok := replay(n, true)
				if !ok {
					continue
				}
				r.Transitions++
				key := gq.Render(impl)
				r.Outcomes = append(r.Outcomes, key)
				if !seen[key] {
					seen[key] = true
					frontier = append(frontier, n)
				}
				if len(impl) > 0 && t > 0 {
					r.Nontrivial = true
				}
			}
		}
	}
	for d := 2; d <= p.depth; d++ {
		var next []node
		for _, n := range frontier {
			for qi := range p.queries {
				nn := node{init: n.init, path: append(append([]c20query{}, n.path...), p.queries[qi])}
				impl, _, ok := replay(nn, false)
				if !ok {
					continue
				}
				r.Transitions++
				key := gq.Render(impl)
				if !seen[key] {
					seen[key] = true
					next = append(next, nn)
					r.Outcomes = append(r.Outcomes, key)
				}
			}
		}
		frontier = next
	}
	r.States = int64(len(seen))
	return r
}

func (p *c20) Meta() core.Meta {
	return core.Meta{
		Rule:        "explicit-state search over the shared variable map: one case per first select list (every sequence of 1..3 operations over {SETVAR(k1,1), SETVAR(k1,a), SETVAR(K2,'x'), GETVAR(k1), GETVAR(K2), SETVAR(k1,GETVAR(K2)), SETVAR(k1,'1')}) run on 4 tables (0-3 rows) with/without WHERE from 3 initial maps; every distinct reached map is expanded breadth-first by every follow-up query (sequences of <= 2 operations x tables x WHERE) to depth 2 (thorough 3); a successor is the shortest path replayed on a fresh map plus one query; every step is compared with a sequential register model (rows, absence of SETVAR columns, caller's map). non-trivial = the first query ran on a non-empty table and left a non-empty map",
		Assumptions: []string{"evaluation order = rows in source order, select-list items left to right (the property's statement)", "values stored are numbers and strings; keys are string literals"},
		Bounds:      map[string]any{"first_lists": len(p.lists), "followup_queries": len(p.queries), "depth": p.depth},
		Exhaustive:  true,
	}
}
