package props

import (
	"fmt"

	"github.com/vedadiyan/genql"
	"github.com/vedadiyan/genql/vrt"
)

// Fault point shared by C11 / C19: the SQL function FAULT(x) returns x, except that its k-th
// invocation (faultAt) in the current execution returns an error.  The enumerating checks run a
// query fault-free to count the invocations N and then once for every k in 1..N - "every point at
// which evaluation can fail part-way through".
var (
	faultCount int
	faultAt    int // 0: never
)

const evFault = 9

func init() {
	genql.RegisterFunction("fault", func(q *genql.Query, cur genql.Map, fo *genql.FunctionOptions, args []any) (any, error) {
		faultCount++
		if faultAt != 0 && faultCount == faultAt {
			vrt.Log(evFault, int64(faultCount), 0)
			return nil, fmt.Errorf("injected fault at invocation %d", faultCount)
		}
		if len(args) == 0 {
			return nil, nil
		}
		return args[0], nil
	})
	// FAULTB(x): boolean-context variant (returns true)
	genql.RegisterFunction("faultb", func(q *genql.Query, cur genql.Map, fo *genql.FunctionOptions, args []any) (any, error) {
		faultCount++
		if faultAt != 0 && faultCount == faultAt {
			return nil, fmt.Errorf("injected fault at invocation %d", faultCount)
		}
		return true, nil
	})
}

func resetFaults(at int) { faultCount, faultAt = 0, at }
