package props

import (
	"fmt"
	"regexp"
	"strings"

	"github.com/vedadiyan/genql"
	"github.com/vedadiyan/genql/vrt"
	"verif/harness/core"
	"verif/harness/gq"
	"verif/harness/racemon"
)

// C10: no query, option set or input can crash or hang the host process.
//
// Oracle: a recover around New+Exec (a panic escaping the API is a violation); library goroutines
// run as scheduler threads, so a panic reaching the top of one - which kills a real process - is
// recorded; the scheduler reports deadlocks; a worker that dies (stack overflow, fatal error) or
// makes no progress is attributed to the sub-case named in its journal.

var c10Seeds = []string{
	"SELECT id FROM t WHERE a > 1",
	"SELECT id, a + 1 AS x, `o.p` AS p FROM t WHERE b LIKE 'x%' OR a IN (1, 3)",
	"SELECT b, COUNT(*) AS c, SUM(a) AS s FROM t GROUP BY b HAVING COUNT(*) > 1",
	"SELECT DISTINCT b FROM t ORDER BY b DESC LIMIT 2 OFFSET 1",
	"SELECT * FROM t x JOIN u y ON x.b = y.b",
	"SELECT * FROM t x LEFT JOIN u y ON x.a < y.c",
	"SELECT * FROM t x PARALLEL HASH_JOIN u y ON x.b = y.b AND x.a = y.c",
	"SELECT * FROM t x JOIN u y USING (b)",
	"SELECT id FROM t UNION ALL SELECT c FROM u UNION SELECT id FROM t",
	"WITH c AS (SELECT id, a FROM t), d AS (SELECT id FROM c) SELECT * FROM d",
	"SELECT * FROM (SELECT id, a FROM t ORDER BY a DESC) AS d",
	"SELECT id, (SELECT q FROM items WHERE q > 0) AS s, * FROM t",
	"SELECT id FROM t WHERE a IN (SELECT c FROM `<-u`) AND EXISTS (SELECT q FROM items WHERE q > a)",
	"SELECT DISTINCT (SELECT q FROM items) AS s, * FROM t",
	"SELECT id FROM m WHERE a BETWEEN 1 AND 2",
	"SELECT CASE WHEN a > 1 THEN 'big' ELSE 'small' END AS size, -a AS neg, !c AS nc FROM t",
	"SELECT id, ASYNC.HMID(a) AS m, SPINASYNC.HMID(a), SPIN.HSPIN(a), ONCE.HONCE() AS o FROM t",
	"SELECT FIRST(items) AS f, ELEMENTAT(items, 0) AS e, UNWIND(grid) AS g, CONCAT(b, a) AS s FROM t",
	"SELECT SETVAR('k', a), GETVAR('k') AS v, CONSTANT('c') AS c, HASH(b, 'md5') AS h FROM t",
	"SELECT [1, [a, 'x'], []] AS arr, `items[0].q` AS q FROM t",
	"SELECT \"id\", 'lit' AS \"s\" FROM \"t\" WHERE \"a\" > 1",
	"SELECT `items[each].q` AS qs, `items[(begin:1)]` AS h, `o{p|string}` AS ps, `mix=>grid` AS mx FROM t",
	"SELECT SUBSTR(b, 0, 1) AS s, FUSE(o) FROM t WHERE n IS NULL AND c IS TRUE",
	"SELECT `root.t[0].a` AS a, 1 + 1 AS two FROM dual",
}

var c10Menu = []string{
	"NATURAL", "UNION", "JOIN", "LEFT", "PARALLEL", "STRAIGHT_JOIN", "HASH_JOIN", "WITH", "RECURSIVE", "AS", "ON", "USING", "INTO",
	"SELECT", "FROM", "WHERE", "GROUP", "BY", "ORDER", "LIMIT", "OFFSET", "DISTINCT", "EXISTS", "IN", "NOT", "AND", "NULL",
	"[", "]", "(", ")", "`", "\"", "'", "<-", ",", ".", "*", "::", "=>", "t", "c", "1", "-1", "1.5", "'x'", "`t[5]`", "`items[9]`", "`<-`", "ASYNC.ELEMENTAT(items, -1)", "ASYNC.HMID(ELEMENTAT(items, -1))", "`items::[x]`", "dual", ";",
}

// queries spelled out in the property's statement and other grammar corners
var c10Corners = []string{
	"SELECT * FROM t NATURAL JOIN u",
	"SELECT * FROM t x NATURAL LEFT JOIN u y",
	"SELECT id FROM t UNION SELECT c FROM u UNION SELECT id FROM t",
	"SELECT id FROM t UNION ALL SELECT c FROM u UNION ALL SELECT id FROM t UNION SELECT c FROM u",
	"WITH c AS (SELECT * FROM c) SELECT * FROM c",
	"WITH c AS (SELECT * FROM d), d AS (SELECT * FROM c) SELECT * FROM c",
	"WITH RECURSIVE c AS (SELECT 1 AS n FROM dual UNION ALL SELECT n + 1 FROM c WHERE n < 3) SELECT * FROM c",
	"WITH c AS (SELECT id FROM t WHERE id IN (SELECT id FROM `<-c`)) SELECT * FROM c",
	"SELECT [1, 2 AS arr FROM t",
	"SELECT 1, 2] AS arr FROM t",
	"SELECT [[1, 2] AS arr FROM t",
	"SELECT ] AS arr FROM t",
	"SELECT '[' AS a, ']' AS b, [1] AS c FROM t",
	"SELECT id FROM `t[5]`",
	"SELECT id FROM `t[0:9]`",
	"SELECT id FROM `t[(2:1)]`",
	"SELECT id FROM `t[each:each:each]`",
	"SELECT id FROM `items[0]`",
	"SELECT `t[5].id` AS x FROM dual",
	// PARALLEL joins that succeed: one goroutine per key evaluates the ON columns through the
	// process-wide selector cache, cold at the start of every execution (an unsynchronised map access
	// there is a fatal error, not a panic)
	"SELECT * FROM t x PARALLEL JOIN u y ON x.a >= y.c",
	"SELECT * FROM t x PARALLEL LEFT JOIN u y ON x.a < y.c OR x.b = y.b",
	"SELECT * FROM t x PARALLEL JOIN u y ON x.b = y.b",
	"SELECT id, ASYNC.HMID(a) AS m, SPINASYNC.HMID(`o.p`) FROM t",
	"SELECT * FROM t x PARALLEL JOIN u y ON x.id < y.c AND (x.id DIV 0) IS NULL",
	"SELECT * FROM t x PARALLEL LEFT JOIN u y ON HPANIC(x.a) = y.c",
	"SELECT * FROM t x PARALLEL JOIN u y ON x.id < y.c AND ELEMENTAT(x.items, 5) = 1",
	"SELECT * FROM t x PARALLEL HASH_JOIN u y ON x.b = y.b INTO j",
	"SELECT * FROM t x PARALLEL JOIN u y ON x.a + y.c",
	"SELECT * FROM t x PARALLEL LEFT JOIN u y ON x.b",
	"SELECT * FROM t x PARALLEL HASH_JOIN u y ON x.items = y.b",
	"SELECT * FROM t x PARALLEL STRAIGHT_JOIN u y ON x.nope.deeper < y.c",
	"SELECT * FROM t x PARALLEL JOIN u y ON `x.items[9]` = y.c",
	"SELECT id, ASYNC.ELEMENTAT(items, -1) AS e FROM t",
	"SELECT id, ASYNC.ELEMENTAT(items, 9) AS e FROM t",
	"SELECT id, SPIN.ELEMENTAT(items, -1) FROM t",
	"SELECT id, SPINASYNC.ELEMENTAT(items, -1) FROM t",
	"SELECT id, ASYNC.HPANIC(a) AS e FROM t",
	"SELECT id, SPINASYNC.HPANIC(a) FROM t",
	"SELECT id, HPANIC(a) AS e FROM t",
	// evaluation deferred with AWAIT runs after the rows are built (post-processing): it panics or fails there
	"SELECT id, ASYNC.HMID(a) AS m, HPANIC(id) AS e FROM t",
	"SELECT id, ASYNC.HSLOW(a) AS m FROM t WHERE ELEMENTAT(items, id) IS NULL",
	"SELECT id, AWAIT(HPANIC(a)) AS e FROM t",
	"SELECT id, AWAIT(HPANICSTR(a)) AS e FROM t",
	"SELECT id, AWAIT(ELEMENTAT(items, -1)) AS e FROM t",
	"SELECT id, AWAIT((SELECT HPANIC(q) AS q FROM items)) AS e FROM t",
	"SELECT * FROM (SELECT AWAIT(HPANIC(a)) AS e FROM t) AS d",
	"WITH c AS (SELECT AWAIT(HPANIC(a)) AS e FROM t) SELECT * FROM c",
	"SELECT id, (SELECT AWAIT(HPANIC(q)) AS e FROM items) AS s FROM t",
	"SELECT id FROM t WHERE a IN (SELECT AWAIT(HPANIC(c)) AS c FROM `<-u`)",
	"SELECT AWAIT(HPANIC(a)) AS e FROM t UNION ALL SELECT id AS e FROM t",
	"SELECT * FROM t x JOIN (SELECT AWAIT(HPANIC(c)) AS c, b FROM u) y ON x.b = y.b",
	"SELECT AWAIT(ASYNC.HPANIC(a)) AS e FROM t",
	"SELECT AWAIT(AWAIT(HPANIC(a))) AS e FROM t",
	// the ARGUMENT of a goroutine-run call panics or fails (not the called function)
	"SELECT id, ASYNC.CONCAT(IF(n, 'y', 'n')) AS x FROM t",
	"SELECT id, SPINASYNC.CONCAT(IF(n, 'y', 'n')) FROM t",
	"SELECT id, SPIN.HSPIN(ELEMENTAT(items, -1)) FROM t",
	"SELECT id, ASYNC.HMID(ELEMENTAT(items, -1)) AS m FROM t",
	"SELECT id, SPINASYNC.HMID(SUBSTR(b, 5, 1)) FROM t",
	"SELECT id, ASYNC.HMID(HPANIC(a)) AS m FROM t",
	"SELECT id, ASYNC.HMID(`items[9].q`) AS m FROM t",
	"SELECT id, ASYNC.HMID((SELECT q FROM `items[9]`)) AS m FROM t",
	// selectors that fail to parse in a later `::` stage, followed by ordinary queries in the same process
	"SELECT `items::[x]` AS v FROM t",
	"SELECT id FROM t",
	"SELECT id FROM `t::[(0:1:x)]`",
	"SELECT id FROM t WHERE a > 0",
	"SELECT `o::p::{a|` AS v, `items::[(x:1)]::q` AS w FROM t",
	"SELECT * FROM t x JOIN u y ON x.b = y.b",
	"SELECT id FROM t WHERE HPANICSTR(a) > 0",
	"SELECT id FROM t ORDER BY items",
	"SELECT id FROM t ORDER BY o DESC, items",
	"SELECT DISTINCT (SELECT q FROM items) AS s, * FROM t",
	"SELECT DISTINCT `<-` AS back, * FROM t WHERE a IN (SELECT c FROM `<-u`)",
	"SELECT DISTINCT *, (SELECT * FROM `<-`) AS all_of_it FROM t",
	// a subquery over dual whose select list mixes comparisons and *, under an outer DISTINCT (rows are formatted)
	"SELECT DISTINCT (SELECT id = 1 AS b, * FROM dual) AS x FROM t",
	"SELECT DISTINCT (SELECT *, id = 1 AS b FROM dual) AS x FROM t",
	"SELECT DISTINCT (SELECT a IN (1) AS f, * FROM dual) AS x, * FROM t",
	"SELECT DISTINCT (SELECT EXISTS (SELECT q FROM items) AS e, a BETWEEN 1 AND 2 AS w, * FROM dual) AS x FROM t",
	"SELECT DISTINCT (SELECT (SELECT id = 1 AS b, * FROM dual) AS inner1, * FROM dual) AS x FROM t",
	"SELECT id, (SELECT id = 1 AS b, * FROM dual) AS x FROM t ORDER BY x",
	// a CTE read through a path selector (its body is evaluated while the path is being walked)
	"WITH big AS (SELECT * FROM t WHERE id > 0) SELECT q FROM `big.items`",
	"WITH c AS (SELECT * FROM t) SELECT id FROM `c[(0:1)]`",
	"WITH c AS (SELECT * FROM t) SELECT `c[0].id` AS x, `c.id` AS ids FROM dual",
	"WITH c AS (SELECT id FROM t), d AS (SELECT * FROM `c[(0:2)]`) SELECT * FROM d x JOIN d y ON x.id = y.id",
	"WITH c AS (SELECT id FROM t) SELECT id FROM t WHERE id IN (SELECT id FROM `<-c[(0:1)]`)",
	"SELECT id FROM t",
	"SELECT id FROM t GROUP BY items",
	"SELECT id FROM t GROUP BY o",
	"SELECT SUBSTR(b, 5, 1) AS s FROM t",
	"SELECT SUBSTR(b, -1, 1) AS s FROM t",
	"SELECT SUBSTR(b, 0, 9) AS s FROM t",
	"SELECT ELEMENTAT(items, -1) AS e FROM t",
	"SELECT a DIV 0 AS d, a % 0 AS m, a / 0 AS q FROM t",
	"SELECT a << 70 AS s, a >> -1 AS r FROM t",
	"SELECT id FROM t LIMIT 99999999999999999999",
	"SELECT id FROM t LIMIT -1",
	"SELECT * FROM t, u",
	"SELECT * FROM t x JOIN u y",
	"SELECT * FROM t x JOIN u y ON 1",
	"SELECT * FROM t x JOIN u y ON x.b = y.b JOIN t z ON z.b = y.b",
	"SELECT * FROM (SELECT * FROM (SELECT * FROM t) AS a) AS b",
	"SELECT (SELECT (SELECT (SELECT q FROM items) AS a FROM items) AS b FROM items) AS c FROM t",
	"SELECT AWAIT(nope) AS w FROM t",
	"SELECT GLOBAL.FIRST(a) AS g FROM t",
	"SELECT GLOBAL.FIRST((SELECT id FROM t)) AS g FROM t",
	"SELECT ONCE.NOSUCH() AS g FROM t",
	"SELECT BOGUS.CONCAT(b) AS g FROM t",
	"SELECT COUNT(*) FROM t GROUP BY b",
	"SELECT SUM(items) AS s, AVG(b) AS v, MIN(o) AS m FROM t",
	"SELECT COUNT(a, b) AS c FROM t",
	"SELECT * FROM dual",
	"SELECT * FROM `<-`",
	"SELECT * FROM `mix=>nothing`",
	"SELECT * FROM `bogus=>t`",
	"SELECT `::::` AS v FROM t",
	"SELECT `t[` AS v FROM dual",
	"SELECT `a{b|` AS v FROM t",
	"INSERT INTO t VALUES (1)",
	"UPDATE t SET a = 1",
	"DELETE FROM t",
	"SELECT",
	"",
	"SELECT 1",
	"SELECT * FROM t WHERE",
	"SELECT * FROM t WHERE a = ",
	"SELECT * FROM t ORDER BY",
	"SELECT id FROM t WHERE a IN ()",
	"SELECT id FROM t WHERE a IN (SELECT * FROM u)",
	"SELECT id FROM t WHERE (a, b) IN ((1, 'x'))",
	"SELECT id FROM t WHERE a = ANY (SELECT c FROM u)",
	"SELECT id FROM t WHERE a LIKE '%' ESCAPE '!'",
	"SELECT id FROM t WHERE b REGEXP '('",
	"SELECT id FROM t WHERE b LIKE '%\\\\'",
	"SELECT CAST(a AS CHAR) AS s FROM t",
	"SELECT a COLLATE utf8mb4_bin AS s FROM t",
	"SELECT INTERVAL 1 DAY AS i FROM t",
	"SELECT @v := 1 FROM t",
	"SELECT ?, :x FROM t",
	"SELECT id FROM t FOR UPDATE",
	"SELECT id FROM t WINDOW w AS (PARTITION BY b)",
	"SELECT ROW_NUMBER() OVER (PARTITION BY b) AS r FROM t",
	"SELECT id FROM t PARTITION (p0)",
	"SELECT id FROM t USE INDEX (i)",
	"SELECT id FROM t AS OF TIMESTAMP 1",
	"SELECT JSON_EXTRACT(o, '$.p') AS j FROM t",
	"SELECT o->'$.p' AS j FROM t",
	"SELECT MATCH (b) AGAINST ('x') AS m FROM t",
	"SELECT id FROM t WHERE a IS UNKNOWN",
	"SELECT id FROM t WHERE a XOR b",
	"SELECT id FROM t WHERE a MEMBER OF (items)",
	"SELECT DEFAULT(a) AS d FROM t",
	"SELECT VALUES(a) AS d FROM t",
	"SELECT CURRENT_TIMESTAMP AS d, NOW() AS n, UTC_DATE() AS u FROM t",
	"SELECT EXTRACT(YEAR FROM b) AS y FROM t",
	"SELECT TRIM(BOTH 'x' FROM b) AS y, LOCATE('x', b) AS l, CHAR(65) AS c FROM t",
	"SELECT GROUP_CONCAT(b) AS g, BIT_AND(a) AS ba, STD(a) AS sd FROM t",
	"SELECT COUNT(DISTINCT b) AS c FROM t",
	"SELECT TIMESTAMPADD(DAY, 1, b) AS t FROM t",
	"SELECT CONVERT(a, CHAR) AS c, CONVERT(b USING utf8) AS u FROM t",
	"SELECT WEIGHT_STRING(b) AS w FROM t",
	"SELECT INSERT(b, 1, 1, 'z') AS i FROM t",
	"SELECT id FROM t WHERE a BETWEEN 'x' AND items",
	"SELECT id FROM t WHERE items > o",
	"SELECT id FROM t WHERE NOT items",
	"SELECT id FROM t WHERE EXISTS (SELECT * FROM nothing)",
	"SELECT id FROM t WHERE EXISTS (SELECT * FROM a)",
	"SELECT id FROM t WHERE EXISTS (SELECT * FROM `items[9]`)",
	"SELECT id, (SELECT * FROM a) AS s FROM t",
	"SELECT id, (SELECT * FROM `<-.<-.<-`) AS s FROM t",
	"SELECT * FROM t x JOIN u y ON x.b = y.b INTO j",
	"SELECT * FROM t JOIN u ON t.b = u.b",
	"SELECT * FROM t x JOIN (SELECT * FROM u) y ON x.b = y.b",
	"SELECT * FROM t x RIGHT JOIN `u[5]` y ON x.b = y.b",
	"SELECT * FROM scalar x JOIN u y ON x.b = y.b",
	"SELECT * FROM t x JOIN scalar y ON x.b = y.b",
	"SELECT id FROM scalar",
	"SELECT id FROM o",
	"SELECT * FROM m x JOIN m y ON x.a = y.a",
}

var c10TokenAlphabet = []string{
	"SELECT", "*", "FROM", "t", "WHERE", "a", "=", "1", "(", ")", ",", "AS", "x", "'s'", "JOIN", "ON", "UNION", "WITH", "NATURAL", "ORDER BY", "LIMIT", "GROUP BY", "[", "]", "`t[5]`", "\"q\"", "`<-`", "NULL", "IN", "EXISTS",
}

type c10case struct {
	kind string // "corner" | "mutate" | "tokens"
	seed int
	pos  int
}

type c10 struct {
	tier   string
	cases  []c10case
	seedTk [][]string
	docs   []func() map[string]any
	tokLen int
}

func init() {
	genql.RegisterFunction("hpanic", func(q *genql.Query, cur genql.Map, fo *genql.FunctionOptions, args []any) (any, error) {
		panic(fmt.Errorf("user function panicked with an error value"))
	})
	genql.RegisterFunction("hpanicstr", func(q *genql.Query, cur genql.Map, fo *genql.FunctionOptions, args []any) (any, error) {
		var m map[string]int
		m["x"] = 1 // runtime error (a runtime.Error value)
		return nil, nil
	})
	core.Register("C10", func() core.Prop { return &c10{} })
}

func (p *c10) ID() string { return "C10" }

var c10TokRe = regexp.MustCompile("`[^`]*`|'[^']*'|\"[^\"]*\"|[A-Za-z_][A-Za-z_0-9.]*|[0-9.]+|<-|=>|::|<=|>=|!=|.")

func tokenize(s string) []string {
	var out []string
	for _, t := range c10TokRe.FindAllString(s, -1) {
		if strings.TrimSpace(t) != "" {
			out = append(out, t)
		}
	}
	return out
}

func (p *c10) Init(tier string) {
	p.tier = tier
	for _, s := range c10Seeds {
		p.seedTk = append(p.seedTk, tokenize(s))
	}
	// corners: batches of 8
	for i := 0; i < len(c10Corners); i += 8 {
		p.cases = append(p.cases, c10case{kind: "corner", seed: i})
	}
	nSeeds := 12
	if tier == "thorough" {
		nSeeds = len(c10Seeds)
	}
	for si := 0; si < nSeeds; si++ {
		for pos := 0; pos <= len(p.seedTk[si]); pos++ {
			p.cases = append(p.cases, c10case{kind: "mutate", seed: si, pos: pos})
		}
	}
	p.tokLen = 3
	if tier == "thorough" {
		p.tokLen = 4
	}
	for a := range c10TokenAlphabet {
		p.cases = append(p.cases, c10case{kind: "tokens", seed: a})
	}
	row := func(id, a float64, b string, qs ...float64) map[string]any {
		items := []any{}
		for _, q := range qs {
			items = append(items, map[string]any{"q": q})
		}
		return map[string]any{"id": id, "a": a, "b": b, "c": true, "n": nil, "o": map[string]any{"p": a}, "items": items, "grid": []any{[]any{a}, []any{}}}
	}
	p.docs = []func() map[string]any{
		func() map[string]any {
			return map[string]any{
				"t":      []any{row(0, 1, "x", 1, 2), row(1, 2, "y"), row(2, 3, "x", 0)},
				"u":      []any{map[string]any{"b": "x", "c": 2.0}, map[string]any{"b": "z", "c": 3.0}},
				"m":      []any{[]any{row(0, 1, "x", 1)}, []any{}},
				"scalar": 5.0, "o": map[string]any{"id": 1.0}, "a": "str",
			}
		},
		func() map[string]any {
			// scalars where arrays are expected, empty arrays, deep nesting, mixed element kinds
			return map[string]any{"t": []any{1.0, "x", nil, []any{}, map[string]any{"id": 0.0, "a": nil, "b": 1.0, "items": "notarray", "o": []any{}}}, "u": map[string]any{"b": "x"}, "m": []any{[]any{[]any{[]any{}}}, 3.0}, "scalar": nil, "a": []any{}}
		},
		func() map[string]any { return map[string]any{} },
		// a wide table (48 rows with distinct keys): fan-out limits of the PARALLEL joins (used for
		// the PARALLEL corners only, default schedule)
		func() map[string]any {
			t := []any{}
			for i := 0; i < 48; i++ {
				t = append(t, row(float64(i), float64(i%5), []string{"x", "y", "z"}[i%3], float64(i)))
			}
			return map[string]any{"t": t, "u": []any{map[string]any{"b": "x", "c": 2.0}, map[string]any{"b": "z", "c": 30.0}, map[string]any{"b": "y", "c": 100.0}}}
		},
	}
}

func (p *c10) NumCases() int { return len(p.cases) }

func (p *c10) queries(i int) []string {
	c := p.cases[i]
	switch c.kind {
	case "corner":
		end := min(c.seed+8, len(c10Corners))
		return c10Corners[c.seed:end]
	case "mutate":
		tk := p.seedTk[c.seed]
		var out []string
		join := func(t []string) string { return strings.Join(t, " ") }
		if c.pos < len(tk) {
			del := append(append([]string{}, tk[:c.pos]...), tk[c.pos+1:]...)
			dup := append(append(append([]string{}, tk[:c.pos+1]...), tk[c.pos]), tk[c.pos+1:]...)
			out = append(out, join(del), join(dup))
			for _, m := range c10Menu {
				rep := append(append(append([]string{}, tk[:c.pos]...), m), tk[c.pos+1:]...)
				out = append(out, join(rep))
			}
		}
		for _, m := range c10Menu {
			ins := append(append(append([]string{}, tk[:c.pos]...), m), tk[c.pos:]...)
			out = append(out, join(ins))
		}
		return out
	}
	// all token strings of length 1..tokLen starting with the given token
	var out []string
	var rec func(cur []string)
	rec = func(cur []string) {
		out = append(out, strings.Join(cur, " "))
		if len(cur) == p.tokLen {
			return
		}
		for _, t := range c10TokenAlphabet {
			rec(append(append([]string{}, cur...), t))
		}
	}
	rec([]string{c10TokenAlphabet[c.seed]})
	return out
}

func (p *c10) Describe(i int) any {
	c := p.cases[i]
	switch c.kind {
	case "corner":
		return map[string]any{"kind": "grammar corners named by the property and others", "queries": p.queries(i)}
	case "mutate":
		return map[string]any{"kind": "every single-token mutation at one position (delete, duplicate, replace by / insert each of a 54-token menu)", "seed": c10Seeds[c.seed], "position": c.pos}
	}
	return map[string]any{"kind": fmt.Sprintf("every token string of length <= %d over a 30-token alphabet starting with %q", p.tokLen, c10TokenAlphabet[c.seed])}
}

// sub-case numbering: query index * 100 + option combination * 10 + document
func (p *c10) DescribeSub(i, sub int) any {
	qs := p.queries(i)
	qi := sub / 100
	if qi >= len(qs) {
		return p.Describe(i)
	}
	return map[string]any{"sql": qs[qi], "options": optName((sub / 10) % 10), "document": sub % 10}
}

func c10Class(msg string) string {
	switch {
	case strings.Contains(msg, "nil pointer"):
		return "nil-dereference"
	case strings.Contains(msg, "index out of range"), strings.Contains(msg, "slice bounds"):
		return "index-out-of-range"
	case strings.Contains(msg, "interface conversion"):
		return "type-assertion"
	case strings.Contains(msg, "unhashable"), strings.Contains(msg, "uncomparable"), strings.Contains(msg, "comparing uncomparable"):
		return "uncomparable"
	case strings.Contains(msg, "nil map"):
		return "nil-map"
	}
	return "other"
}

func (p *c10) RunCase(i int) *core.CaseResult {
	r := &core.CaseResult{}
	c := p.cases[i]
	qs := p.queries(i)
	resume := core.ResumeAfter(i)
	combos := optCombos()
	raceSeen := map[string]bool{}
	raceBase := racemon.Errors()
	nOpts := 8
	docs := []int{0, 1, 2, 3}
	if c.kind != "corner" {
		// mutated / enumerated strings: option combinations that change the text (pg, idiomatic, both) + none + wrapped
		nOpts = 5
		docs = []int{0, 1}
		if c.kind == "tokens" {
			docs = []int{0}
		}
	}
	for qi, sql := range qs {
		for m := 0; m < nOpts; m++ {
			for _, di := range docs {
				sub := qi*100 + m*10 + di
				if sub <= resume {
					continue
				}
				if di == 3 && !strings.Contains(sql, "PARALLEL") {
					continue
				}
				core.SetSub(sub)
				doc := p.docs[di]()
				hOnceCounter = 0
				sched := strings.Contains(sql, "PARALLEL") || strings.Contains(sql, "ASYNC") || strings.Contains(sql, "SPIN")
				opts := append(append([]genql.QueryOption{}, combos[m]...), genql.WithVars(map[string]any{}), genql.WithConstants(map[string]any{"c": 1.0}), genql.UnReportedErrors(func(error) {}))
				var outs []*gq.Out
				if sched && c.kind == "corner" && di != 3 {
					// goroutine-bearing corners: every schedule with <= 1 preemption
					vrt.SetQuiet(genql.VerifSelectorMutex())
					st := gq.ExploreQuery(vrt.Config{Sched: true, Quiet: true}, 1, 20000,
						func() (map[string]any, string, []genql.QueryOption) { return p.docs[di](), sql, opts },
						func(o *gq.Out, prefix []int32) bool { outs = append(outs, o); return o.Panic == "" && o.GPanic == "" })
					r.Execs += st.Execs
					r.Transitions += st.Transitions
					// unsynchronised accesses to a Go map from the library's own goroutines are fatal
					// errors ("concurrent map read and map write"): reported by the race monitor
					if racemon.Enabled && racemon.Errors() != raceBase {
						raceBase = racemon.Errors()
						for _, rep := range racemon.Drain() {
							if !strings.Contains(rep.Text, "runtime.map") || raceSeen[rep.Sig] {
								continue
							}
							raceSeen[rep.Sig] = true
							r.Fail("C10|corner|concurrent-map-access|"+rep.Sig, fmt.Sprintf("%s (options %s, document %d): the library's goroutines access a map without synchronisation (fatal error: concurrent map read and map write / writes): %s", sql, optName(m), di, rep.Text), map[string]any{"sql": sql, "options": optName(m), "doc": p.docs[di](), "report": rep.Text})
						}
					}
				} else {
					outs = []*gq.Out{gq.Run(doc, sql, opts...)}
					r.Execs++
				}
				if sched && c.kind == "corner" {
					// the same Query object executed three times in a row (the first Exec may fail while calls
					// it started are still running): no panic may escape, no goroutine may panic
					var pan string
					res := vrt.Run(gq.Seq, nil, func() {
						defer func() {
							if rec := recover(); rec != nil {
								pan = fmt.Sprint(rec)
							}
						}()
						q, err := genql.New(p.docs[di](), sql, opts...)
						if err != nil {
							return
						}
						for k := 0; k < 3; k++ {
							q.Exec()
						}
					})
					r.Execs += 3
					if pan != "" || res.GPanic != "" {
						r.Fail("C10|corner|repeated-exec|"+c10Class(pan+res.GPanic), fmt.Sprintf("%s (options %s, document %d): Exec called three times on one Query: panic %q, goroutine panic %q", sql, optName(m), di, pan, res.GPanic), map[string]any{"sql": sql, "options": optName(m), "doc": p.docs[di]()})
					}
				}
				for _, o := range outs {
					where := "exec"
					if o.InNew {
						where = "new"
					}
					cs := map[string]any{"sql": sql, "options": optName(m), "doc": p.docs[di]()}
					if o.Panic != "" {
						r.Fail("C10|"+c.kind+"|panic-escaped-"+where+"|"+c10Class(o.Panic), fmt.Sprintf("%s (options %s, document %d): a panic escaped %s: %s", sql, optName(m), di, where, o.Panic), cs)
					}
					if o.GPanic != "" {
						r.Fail("C10|"+c.kind+"|goroutine-panic|"+c10Class(o.GPanic), fmt.Sprintf("%s (options %s, document %d): a library goroutine panicked (this kills the host process): %s", sql, optName(m), di, o.GPanic), cs)
					}
					if o.Err == nil && o.Panic == "" {
						r.Nontrivial = true
					}
				}
				if len(outs) > 0 {
					r.Outcomes = append(r.Outcomes, outs[0].Status())
				}
			}
		}
	}
	genql.VerifResetSelectorCache()
	return r
}

func (p *c10) Meta() core.Meta {
	return core.Meta{
		Rule:        "corner cases: 176 hand-listed queries (NATURAL JOIN, chained UNION, self- / mutually- / recursively-referencing CTEs, unbalanced brackets under IdiomaticArrays, out-of-range indices in FROM paths, PARALLEL joins and ASYNC / SPIN / SPINASYNC calls whose evaluation fails or panics, DISTINCT over subqueries / back-references plus star, ORDER BY / GROUP BY of objects, SUBSTR / ELEMENTAT out of range, unsupported MySQL syntax families, scalars where arrays are expected) x all 8 option combinations x 3 documents (PARALLEL corners also on a 48-row table with distinct keys), goroutine-bearing ones under every schedule with <= 1 preemption with the race detector as a monitor for unsynchronised map accesses (which are fatal errors, not panics); mutation cases: every single-token mutation (delete, duplicate, replace by / insert each of 54 tokens) of 12 (thorough 24) seed queries covering the supported grammar x 5 option combinations x 2 documents; token cases: every token string of length <= 3 (thorough 4) over a 30-token alphabet x 5 option combinations. Oracle: no panic escapes New / Exec, no library goroutine panics, no deadlock (scheduler), no worker death (stack overflow, fatal error) and no hang (watchdog), each attributed to the journalled sub-case. non-trivial = some query of the case succeeded",
		Assumptions: []string{"user-registered functions that panic with a value that is not an error are outside the property's quantifier; HPANIC panics with an error value, HPANICSTR with a runtime error", "debug.SetMaxStack(256 MiB) makes runaway recursion fail fast; the watchdog kills a worker without progress for 120 s"},
		Bounds:      map[string]any{"corners": len(c10Corners), "seeds": len(c10Seeds), "menu": len(c10Menu), "token_alphabet": len(c10TokenAlphabet), "token_length": p.tokLen},
		Exhaustive:  true,
		NeedRace:    true,
		CaseTimeout: 0,
	}
}
