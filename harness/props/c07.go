package props

import (
	"fmt"
	"strings"

	"github.com/vedadiyan/genql"
	"verif/harness/core"
	"verif/harness/gq"
)

// C07: CTEs, derived tables and subqueries equal staged evaluation.
//
// Oracle = a relation between implementation executions: the composed query must return what the
// outer query returns over the inner query's materialised result supplied as plain input; row-
// scoped subqueries must contribute what the subquery returns when run standalone on that row;
// EXISTS is compared with a direct existential over the nested array.

var c07Inner = []string{
	"SELECT id, a, g FROM t",
	"SELECT id, a, g FROM t WHERE a > 1",
	"SELECT id, a + 1 AS a, g FROM t",
	"SELECT g, COUNT(*) AS a, MIN(id) AS id FROM t GROUP BY g",
	"SELECT id, a, g FROM t ORDER BY a DESC, id",
	"SELECT id, a, g FROM t ORDER BY a DESC LIMIT 2",
	"SELECT DISTINCT g, 1 AS a, 0 AS id FROM t",
	"SELECT * FROM t WHERE a >= 2",
	"SELECT id, a, g FROM t WHERE a > 100",
	"SELECT id, a, g, items FROM t WHERE id >= 0",
	"SELECT id, a, g FROM t LIMIT 1 OFFSET 1",
	"SELECT id, CASE WHEN a > 1 THEN a ELSE 0 END AS a, g FROM t",
	"SELECT id, a, g FROM t WHERE g = 'x' OR a = 3",
	"SELECT id, a, g FROM t WHERE EXISTS (SELECT q FROM items WHERE q > 0)",
}

var c07Outer = []string{
	"SELECT * FROM {T}",
	"SELECT id FROM {T} WHERE a > 1",
	"SELECT a + 1 AS b, g FROM {T}",
	"SELECT g, COUNT(*) AS c, SUM(a) AS s FROM {T} GROUP BY g",
	"SELECT id, a FROM {T} ORDER BY a, id",
	"SELECT COUNT(*) AS c, MAX(a) AS m FROM {T}",
	"SELECT id FROM {T} ORDER BY id DESC LIMIT 1",
	"SELECT DISTINCT g FROM {T}",
	"SELECT id FROM {T} WHERE g = 'x' AND a IN (1, 2, 3)",
	"SELECT id FROM {T} WHERE a IN (SELECT b FROM `<-u`)",
	"SELECT id, g FROM {T} WHERE a BETWEEN 2 AND 3 ORDER BY id DESC",
	"SELECT id FROM {T} LIMIT 2 OFFSET 1",
}

// middle stage for chains: reads {T}, keeps the columns id, a, g
var c07Middle = []string{
	"SELECT id, a, g FROM {T} WHERE a >= 2",
	"SELECT id, a * 2 AS a, g FROM {T}",
	"SELECT id, a, g FROM {T} ORDER BY id DESC LIMIT 2",
}

var c07Sub = []string{
	"SELECT q FROM items WHERE q > 0",
	"SELECT COUNT(*) AS n FROM items",
	"SELECT q + 1 AS r FROM items ORDER BY q DESC LIMIT 1",
	"SELECT b FROM `<-u` WHERE b > 1",
	"SELECT q FROM items WHERE q IN (SELECT b FROM `<-.<-u`)",
	"SELECT q FROM items",
	// reads the enclosing document but is correlated with the current outer row through <-
	"SELECT b FROM `<-u` WHERE b > `<-a`",
	"SELECT b, `<-id` AS outer_id FROM `<-u` WHERE b = `<-a` OR `<-g` = 'y'",
}

var c07In = []string{
	"SELECT b FROM `<-u`",
	"SELECT b FROM `<-u` WHERE b > 2",
	"SELECT q FROM items",
	"SELECT q + 1 AS q1 FROM items WHERE q >= 0",
	"SELECT b FROM `<-u` WHERE b >= `<-a`",
}

type c07exists struct {
	pred string
	ref  func(inner, outer map[string]any) bool
}

// c07CurDoc: the document of the running EXISTS case (for predicates that navigate back to it)
var c07CurDoc map[string]any

func c07InU(v any) bool {
	us, _ := c07CurDoc["u"].([]any)
	for _, u := range us {
		if u.(map[string]any)["b"] == v {
			return true
		}
	}
	return false
}

var c07Exists = []c07exists{
	{"q > 0", func(in, out map[string]any) bool { return in["q"].(float64) > 0 }},
	{"q > a", func(in, out map[string]any) bool { return in["q"].(float64) > out["a"].(float64) }},
	{"q = id", func(in, out map[string]any) bool { return in["q"].(float64) == out["id"].(float64) }},
	{"q >= 0 AND g = 'x'", func(in, out map[string]any) bool { return in["q"].(float64) >= 0 && out["g"] == "x" }},
	{"a > 1", func(in, out map[string]any) bool { return out["a"].(float64) > 1 }},
	{"q < 0 OR a = 3", func(in, out map[string]any) bool { return in["q"].(float64) < 0 || out["a"].(float64) == 3 }},
	// the predicate navigates back from the nested element: `<-` is the outer row, `<-<-` the document
	{"q IN (SELECT b FROM `<-<-u`)", func(in, out map[string]any) bool { return c07InU(in["q"]) }},
	{"q >= 0 AND a IN (SELECT b FROM `<-<-u`)", func(in, out map[string]any) bool { return in["q"].(float64) >= 0 && c07InU(out["a"]) }},
	// outer columns reached by navigating back from the nested element
	{"q > `<-.a`", func(in, out map[string]any) bool { return in["q"].(float64) > out["a"].(float64) }},
	{"w IS NOT NULL AND w >= 10 AND `<-.g` = 'x'", func(in, out map[string]any) bool {
		w, _ := in["w"].(float64)
		return in["w"] != nil && w >= 10 && out["g"] == "x"
	}},
	// outer columns reached through a selector with further steps (index, nested key)
	{"q >= `caps[0]`", func(in, out map[string]any) bool { return in["q"].(float64) >= out["caps"].([]any)[0].(float64) }},
	{"q > `caps[1]` AND `meta.cap` > 1", func(in, out map[string]any) bool {
		return in["q"].(float64) > out["caps"].([]any)[1].(float64) && out["meta"].(map[string]any)["cap"].(float64) > 1
	}},
	// sparse elements: a key that an element lacks must read as NULL whatever its siblings hold
	{"q = 2 AND z IS NULL", func(in, out map[string]any) bool { return in["q"].(float64) == 2 && in["z"] == nil }},
	{"z IS NOT NULL AND q = 2", func(in, out map[string]any) bool { return in["z"] != nil && in["q"].(float64) == 2 }},
	{"w IS NULL OR q > a", func(in, out map[string]any) bool { return in["w"] == nil || in["q"].(float64) > out["a"].(float64) }},
}

type c07case struct {
	form string // cte | derived | chain2 | chain3 | twice-join | twice-union | path | subquery | in | exists
	i, o int
}

type c07 struct {
	tier  string
	cases []c07case
	docs  []func() map[string]any
}

func init() { core.Register("C07", func() core.Prop { return &c07{} }) }

func (p *c07) ID() string { return "C07" }

func (p *c07) Init(tier string) {
	p.tier = tier
	for _, form := range []string{"cte", "derived"} {
		for i := range c07Inner {
			for o := range c07Outer {
				p.cases = append(p.cases, c07case{form, i, o})
			}
		}
	}
	for i := range c07Inner {
		for m := range c07Middle {
			p.cases = append(p.cases, c07case{"chain2", i, m})
			if tier == "thorough" || i%3 == 0 {
				p.cases = append(p.cases, c07case{"chain3", i, m})
			}
		}
		p.cases = append(p.cases, c07case{"twice-join", i, 0}, c07case{"twice-union", i, 0}, c07case{"path", i, 0})
	}
	for s := range c07Sub {
		p.cases = append(p.cases, c07case{"subquery", s, 0})
	}
	for s := range c07In {
		p.cases = append(p.cases, c07case{"in", s, 0})
	}
	for s := range c07Exists {
		p.cases = append(p.cases, c07case{"exists", s, 0})
	}
	row := func(id, a float64, g string, qs ...float64) map[string]any {
		items := []any{}
		for _, q := range qs {
			items = append(items, map[string]any{"q": q, "w": q * 10})
		}
		return map[string]any{"id": id, "a": a, "g": g, "items": items, "caps": []any{a, id}, "meta": map[string]any{"cap": a}}
	}
	u := func(bs ...float64) []any {
		out := []any{}
		for _, b := range bs {
			out = append(out, map[string]any{"b": b})
		}
		return out
	}
	p.docs = []func() map[string]any{
		func() map[string]any {
			return map[string]any{"t": []any{row(0, 1, "x", 1, 0), row(1, 2, "y"), row(2, 3, "x", -1, 2, 3)}, "u": u(2, 3)}
		},
		func() map[string]any { return map[string]any{"t": []any{}, "u": u(1)} },
		func() map[string]any {
			return map[string]any{"t": []any{row(0, 2, "x", 0)}, "u": u()}
		},
		func() map[string]any {
			return map[string]any{"t": []any{row(0, 3, "y", 5), row(1, 3, "y", 1), row(2, 1, "y"), row(3, 2, "x", 2, 2)}, "u": u(3, 1, 3)}
		},
		func() map[string]any {
			return map[string]any{"t": []any{row(0, 1, "x", 1), row(1, 1, "x", 1)}, "u": u(1, 2)}
		},
		func() map[string]any {
			// rows whose nested array is missing or NULL, after a row that has one
			full := row(0, 1, "x", 1, 4)
			missing := row(1, 2, "y")
			delete(missing, "items")
			null := row(2, 1, "x")
			null["items"] = nil
			return map[string]any{"t": []any{full, missing, null, row(3, 4, "y", 2), row(4, 0, "x")}, "u": u(1, 4)}
		},
		func() map[string]any {
			// nested arrays whose elements do not all have the same keys
			sparse := func(id, a float64, g string, items ...any) map[string]any {
				return map[string]any{"id": id, "a": a, "g": g, "items": items, "caps": []any{a, id}, "meta": map[string]any{"cap": a}}
			}
			return map[string]any{"t": []any{
				sparse(0, 1, "x", map[string]any{"q": 1.0, "w": 10.0, "z": 5.0}, map[string]any{"q": 2.0, "w": 20.0}),
				sparse(1, 2, "y", map[string]any{"q": 2.0, "w": 20.0}, map[string]any{"q": 1.0, "z": 5.0}),
				sparse(2, 3, "x", map[string]any{"q": 2.0, "z": 7.0}),
				sparse(3, 0, "y", map[string]any{"q": 1.0, "w": 1.0, "z": 1.0}, map[string]any{"q": 3.0, "w": 2.0, "z": 2.0}, map[string]any{"q": 2.0}),
			}, "u": u(2)}
		},
	}
	if tier == "thorough" {
		// all tables of <= 3 rows over 3 row archetypes
		arch := []func(id float64) map[string]any{
			func(id float64) map[string]any { return row(id, 1, "x", 1, 0) },
			func(id float64) map[string]any { return row(id, 3, "y") },
			func(id float64) map[string]any { return row(id, 2, "x", 2, -1) },
		}
		var rec func(cur []int)
		rec = func(cur []int) {
			c := append([]int{}, cur...)
			if len(c) > 0 {
				p.docs = append(p.docs, func() map[string]any {
					t := []any{}
					for i, k := range c {
						t = append(t, arch[k](float64(i)))
					}
					return map[string]any{"t": t, "u": u(2, 3)}
				})
			}
			if len(c) == 3 {
				return
			}
			for k := range arch {
				rec(append(c, k))
			}
		}
		rec(nil)
	}
}

func (p *c07) NumCases() int { return len(p.cases) }

func (p *c07) Describe(i int) any {
	c := p.cases[i]
	d := map[string]any{"form": c.form, "documents": len(p.docs)}
	switch c.form {
	case "cte", "derived":
		d["inner"], d["outer"] = c07Inner[c.i], c07Outer[c.o]
	case "chain2", "chain3":
		d["inner"], d["middle"] = c07Inner[c.i], c07Middle[c.o]
	case "twice-join", "twice-union", "path":
		d["inner"] = c07Inner[c.i]
	case "subquery":
		d["subquery"] = c07Sub[c.i]
	case "in":
		d["subquery"] = c07In[c.i]
	case "exists":
		d["predicate"] = c07Exists[c.i].pred
	}
	return d
}

func on(q, table string) string { return strings.ReplaceAll(q, "{T}", table) }

// staged runs the stages one after the other, materialising each result as plain input under a
// fresh top-level key; returns the rendered rows of the last stage.
func staged(doc map[string]any, stages []string) (string, *gq.Out) {
	cur := gq.CloneMap(doc)
	var last *gq.Out
	for k, q := range stages {
		tbl := "t"
		if k > 0 {
			tbl = fmt.Sprintf("m%d", k)
		}
		last = gq.Run(cur, on(q, tbl))
		if last.Failed() {
			return "error", last
		}
		cur[fmt.Sprintf("m%d", k+1)] = gq.Clone(any(last.Rows))
	}
	return gq.Render(last.Rows), last
}

func (p *c07) RunCase(i int) *core.CaseResult {
	defer withNoise()()
	r := &core.CaseResult{}
	defer withUsage(r, "C07")()
	c := p.cases[i]
	for di, mk := range p.docs {
		var composed string
		var stagedOut string
		var desc string
		bag := false
		switch c.form {
		case "cte":
			composed = "WITH c AS (" + c07Inner[c.i] + ") " + on(c07Outer[c.o], "c")
			stagedOut, _ = staged(mk(), []string{c07Inner[c.i], c07Outer[c.o]})
		case "derived":
			// a derived table's rows are addressed through its alias; the outer query is rewritten
			// accordingly on both sides (FROM (I) AS d  vs  FROM m1 AS d)
			outer := c07Outer[c.o]
			qual := strings.NewReplacer("SELECT * ", "SELECT * ", " id", " `d.id`", " a ", " `d.a` ", " a,", " `d.a`,", "(a)", "(`d.a`)", " g ", " `d.g` ", " g,", " `d.g`,", "BY g", "BY `d.g`", "BY a", "BY `d.a`", "BY id", "BY `d.id`", "DISTINCT g", "DISTINCT `d.g`", ", g FROM", ", `d.g` FROM", ", a FROM", ", `d.a` FROM").Replace(outer)
			composed = strings.Replace(qual, "{T}", "("+c07Inner[c.i]+") AS d", 1)
			doc := mk()
			in := gq.Run(doc, c07Inner[c.i])
			r.Execs++
			if in.Failed() {
				stagedOut = "error"
			} else {
				d2 := mk()
				d2["m1"] = gq.Clone(any(in.Rows))
				o := gq.Run(d2, strings.Replace(qual, "{T}", "m1 AS d", 1))
				r.Execs++
				stagedOut = outcome(o)
			}
		case "chain2":
			composed = "WITH c1 AS (" + c07Inner[c.i] + "), c2 AS (" + on(c07Middle[c.o], "c1") + ") SELECT * FROM c2"
			stagedOut, _ = staged(mk(), []string{c07Inner[c.i], c07Middle[c.o], "SELECT * FROM {T}"})
		case "chain3":
			m2 := c07Middle[(c.o+1)%len(c07Middle)]
			composed = "WITH c1 AS (" + c07Inner[c.i] + "), c2 AS (" + on(c07Middle[c.o], "c1") + "), c3 AS (" + on(m2, "c2") + ") SELECT id, a FROM c3 WHERE id >= 0"
			stagedOut, _ = staged(mk(), []string{c07Inner[c.i], c07Middle[c.o], m2, "SELECT id, a FROM {T} WHERE id >= 0"})
		case "twice-join":
			composed = "WITH c AS (" + c07Inner[c.i] + ") SELECT * FROM c x JOIN c y ON x.id = y.id"
			doc := mk()
			in := gq.Run(doc, c07Inner[c.i])
			r.Execs++
			if in.Failed() {
				stagedOut = "error"
			} else {
				d2 := mk()
				d2["m1"] = gq.Clone(any(in.Rows))
				o := gq.Run(d2, "SELECT * FROM m1 x JOIN m1 y ON x.id = y.id")
				r.Execs++
				stagedOut = outcome(o)
			}
			bag = true
		case "twice-union":
			composed = "WITH c AS (" + c07Inner[c.i] + ") SELECT id FROM c WHERE a > 1 UNION ALL SELECT id FROM c"
			doc := mk()
			in := gq.Run(doc, c07Inner[c.i])
			r.Execs++
			if in.Failed() {
				stagedOut = "error"
			} else {
				d2 := mk()
				d2["m1"] = gq.Clone(any(in.Rows))
				o := gq.Run(d2, "SELECT id FROM m1 WHERE a > 1 UNION ALL SELECT id FROM m1")
				r.Execs++
				stagedOut = outcome(o)
			}
		case "path":
			// the CTE read through a path selector: first row's columns as a one-row table
			composed = "WITH c AS (" + c07Inner[c.i] + ") SELECT id, a FROM `c[(0:1)]`"
			doc := mk()
			in := gq.Run(doc, c07Inner[c.i])
			r.Execs++
			if in.Failed() {
				stagedOut = "error"
			} else {
				d2 := mk()
				d2["m1"] = gq.Clone(any(in.Rows))
				o := gq.Run(d2, "SELECT id, a FROM `m1[(0:1)]`")
				r.Execs++
				stagedOut = outcome(o)
			}
		case "subquery":
			p.runSubquery(r, c.i, di, mk)
			continue
		case "in":
			p.runIn(r, c.i, di, mk)
			continue
		case "exists":
			p.runExists(r, c.i, di, mk)
			continue
		}
		desc = composed
		doc := mk()
		out := gq.Run(doc, composed)
		r.Execs++
		got := outcome(out)
		r.Outcomes = append(r.Outcomes, got[:min(len(got), 24)])
		if !strings.HasPrefix(got, "error") && got != "[]" {
			r.Nontrivial = true
		}
		if got != stagedOut {
			if bag && sameBagRendered(got, stagedOut) {
				continue
			}
			r.Fail("C07|"+c.form+"|"+c07Mode(got, stagedOut), fmt.Sprintf("%s on %s returned %s (%v %s); staged evaluation returns %s", desc, gq.Render(mk()), got, out.Err, out.Panic, stagedOut), map[string]any{"sql": composed, "doc": mk()})
		}
	}
	return r
}

func c07Mode(got, want string) string {
	switch {
	case strings.HasPrefix(got, "panic"):
		return "panic"
	case strings.HasPrefix(got, "error"):
		return "error-but-staged-succeeds"
	case strings.HasPrefix(want, "error"):
		return "succeeds-but-staged-fails"
	}
	return "differs"
}

// sameBagRendered compares two rendered row lists as multisets (top-level split at "},{" is safe
// enough for join rows of the shape {"x":{...},"y":{...}}: a differing multiset can never compare equal).
func sameBagRendered(a, b string) bool {
	sa, sb := splitRows(a), splitRows(b)
	return gq.SameBag(sa, sb)
}

func splitRows(s string) []string {
	s = strings.TrimSuffix(strings.TrimPrefix(s, "["), "]")
	var out []string
	depth, start := 0, 0
	for i := 0; i < len(s); i++ {
		switch s[i] {
		case '{', '[':
			depth++
		case '}', ']':
			depth--
		case ',':
			if depth == 0 {
				out = append(out, s[start:i])
				start = i + 1
			}
		case '"':
			for i++; i < len(s) && s[i] != '"'; i++ {
				if s[i] == '\\' {
					i++
				}
			}
		}
	}
	if start < len(s) {
		out = append(out, s[start:])
	}
	return out
}

func (p *c07) runSubquery(r *core.CaseResult, si, di int, mk func() map[string]any) {
	sub := c07Sub[si]
	composed := "SELECT id, (" + sub + ") AS s FROM t"
	doc := mk()
	out := gq.Run(doc, composed)
	r.Execs++
	rows, _ := mk()["t"].([]any)
	// standalone: the subquery with the row as its document ("<-" = the enclosing document)
	var want []any
	failed := false
	for _, row := range rows {
		rd := gq.CloneMap(row.(map[string]any))
		encl := mk()
		rd["<-"] = encl
		o := gq.Run(rd, sub)
		r.Execs++
		if o.Failed() {
			failed = true
			break
		}
		want = append(want, map[string]any{"id": row.(map[string]any)["id"], "s": any(o.Rows)})
	}
	got := outcome(out)
	w := gq.Render(want)
	if want == nil {
		w = "[]"
	}
	if failed {
		w = "error"
	}
	if got != "[]" && !strings.HasPrefix(got, "error") {
		r.Nontrivial = true
	}
	r.Outcomes = append(r.Outcomes, got[:min(len(got), 24)])
	if got != w {
		r.Fail("C07|subquery|"+c07Mode(got, w), fmt.Sprintf("%s on %s returned %s (%v %s); the subquery run standalone on each row gives %s", composed, gq.Render(mk()), got, out.Err, out.Panic, w), map[string]any{"sql": composed, "doc": mk()})
	}
}

func (p *c07) runIn(r *core.CaseResult, si, di int, mk func() map[string]any) {
	sub := c07In[si]
	composed := "SELECT id FROM t WHERE a IN (" + sub + ")"
	out := gq.Run(mk(), composed)
	r.Execs++
	rows, _ := mk()["t"].([]any)
	want := []any{}
	failed := false
	for _, row := range rows {
		rm := row.(map[string]any)
		rd := gq.CloneMap(rm)
		rd["<-"] = mk()
		o := gq.Run(rd, sub)
		r.Execs++
		if o.Failed() {
			failed = true
			break
		}
		for _, x := range o.Rows {
			hit := false
			for _, v := range x.(map[string]any) {
				if f, ok := gq.Num(v); ok && f == rm["a"].(float64) {
					hit = true
				}
			}
			if hit {
				want = append(want, map[string]any{"id": rm["id"]})
				break
			}
		}
	}
	got := outcome(out)
	w := gq.Render(want)
	if failed {
		w = "error"
	}
	if len(want) > 0 && len(want) < len(rows) {
		r.Nontrivial = true
	}
	r.Outcomes = append(r.Outcomes, got[:min(len(got), 24)])
	if got != w {
		r.Fail("C07|in-subquery|"+c07Mode(got, w), fmt.Sprintf("%s on %s returned %s (%v %s); membership in the standalone subquery result gives %s", composed, gq.Render(mk()), got, out.Err, out.Panic, w), map[string]any{"sql": composed, "doc": mk()})
	}
}

func (p *c07) runExists(r *core.CaseResult, ei, di int, mk func() map[string]any) {
	e := c07Exists[ei]
	composed := "SELECT id FROM t WHERE EXISTS (SELECT q FROM items WHERE " + e.pred + ")"
	out := gq.Run(mk(), composed, genql.WithVars(map[string]any{}))
	r.Execs++
	rows, _ := mk()["t"].([]any)
	want := []any{}
	for _, row := range rows {
		rm := row.(map[string]any)
		items, _ := rm["items"].([]any)
		for _, it := range items {
			c07CurDoc = mk()
			if e.ref(it.(map[string]any), rm) {
				want = append(want, map[string]any{"id": rm["id"]})
				break
			}
		}
	}
	got := outcome(out)
	w := gq.Render(want)
	if len(want) > 0 && len(want) < len(rows) {
		r.Nontrivial = true
	}
	r.Outcomes = append(r.Outcomes, got[:min(len(got), 24)])
	if got != w {
		r.Fail("C07|exists|"+c07Mode(got, w), fmt.Sprintf("%s on %s returned %s (%v %s); a direct existential over the nested array gives %s", composed, gq.Render(mk()), got, out.Err, out.Panic, w), map[string]any{"sql": composed, "doc": mk()})
	}
}

func (p *c07) Meta() core.Meta {
	return core.Meta{
		Rule:        "pipelines: 14 inner queries (filter, projection, aggregate, order, limit, distinct, star, empty result, nested column kept, CASE, EXISTS) x 12 outer queries (star, filter, arithmetic, group-by, order, aggregate, limit, distinct, IN list, IN subquery on the enclosing document, BETWEEN, window) in the forms WITH c AS (I) O[c] and FROM (I) AS d; 2- and 3-stage CTE chains; a CTE referenced twice (self-join, UNION ALL); a CTE read through a path selector; each composed query vs the outer query run over the inner result materialised as plain input. Row-scoped: 8 select-list subqueries (two of them read the enclosing document but are correlated with the outer row) vs the subquery run standalone on each row (with <- bound to the enclosing document), 5 IN-subqueries vs membership in the standalone result, 15 EXISTS predicates over inner and outer columns (incl. predicates that navigate back from the nested element to the outer row and the document, outer columns reached through selectors with an index or a nested key, and IS NULL on keys that some elements of the nested array lack) vs a direct existential. 7 documents (one with sparse nested elements, one with rows whose nested array is missing or NULL) (thorough: also all tables of <= 3 rows over 3 archetypes). non-trivial = the composed query returns rows",
		Assumptions: []string{"inner and outer columns of EXISTS have distinct names (the property fixes no rule for clashes)", "composed and staged results are compared as sequences (multisets for the self-join)"},
		Bounds:      map[string]any{"inner": len(c07Inner), "outer": len(c07Outer), "documents": len(p.docs)},
		Exhaustive:  true,
	}
}
