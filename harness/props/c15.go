package props

import (
	"fmt"
	"math"
	"math/big"
	"strconv"
	"strings"

	"github.com/vedadiyan/genql/compare"
	"verif/harness/core"
	"verif/harness/gq"
)

// C15: compare.Compare is a coherent order.  The domain D (every Go numeric type x boundary
// values, plus strings) is finite; all pairs and all triples are enumerated: exhaustive.

type c15 struct {
	dom  []any
	kind []int // 0 number, 1 string
	rat  []*big.Rat
}

func init() { core.Register("C15", func() core.Prop { return &c15{} }) }

func (p *c15) ID() string { return "C15" }

func (p *c15) Init(tier string) {
	add := func(v any) { p.dom = append(p.dom, v) }
	const two53 = int64(1) << 53
	for _, v := range []int{math.MinInt32, -1, 0, 1, 2, 10, math.MaxInt32} {
		add(v)
	}
	add(int(two53))
	add(int(-two53))
	for _, v := range []int8{math.MinInt8, -1, 0, 1, math.MaxInt8} {
		add(v)
	}
	for _, v := range []int16{math.MinInt16, -1, 0, 1, math.MaxInt16} {
		add(v)
	}
	for _, v := range []int32{math.MinInt32, -1, 0, 1, math.MaxInt32} {
		add(v)
	}
	for _, v := range []int64{-two53, math.MinInt32, -1, 0, 1, math.MaxInt32, two53} {
		add(v)
	}
	for _, v := range []uint{0, 1, 2, math.MaxUint32, uint(two53)} {
		add(v)
	}
	for _, v := range []uint8{0, 1, math.MaxUint8} {
		add(v)
	}
	for _, v := range []uint16{0, 1, math.MaxUint16} {
		add(v)
	}
	for _, v := range []uint32{0, 1, math.MaxUint32} {
		add(v)
	}
	for _, v := range []uint64{0, 1, math.MaxUint32, uint64(two53)} {
		add(v)
	}
	// the ends of the 64-bit ranges (all exactly representable as float64): values at or beyond 2^63
	// wrap when converted to a signed type
	add(uint64(1) << 63)
	add(uint64(3) << 62)
	add(uint(1) << 63)
	add(int64(math.MinInt64))
	add(int(math.MinInt64))
	add(float64(1 << 63))
	add(-float64(1 << 63))
	// beyond 2^24 a float32 cannot hold every integer: 32-bit integers around it, and the doubles that
	// single precision cannot hold
	add(int32(16777217))
	add(int32(-16777217))
	add(int32(16777216))
	add(float32(16777216))
	add(float64(16777217))
	add(uint32(16777217))
	for _, v := range []float32{-1, -0.5, 0, 1, 1.5, 2.5, 128, 65536} {
		add(v)
	}
	for _, v := range []float64{-float64(two53), -1, -0.5, 0, 0.5, 1, 1.5, 2, 2.5, 10, 127.5, 255.5, float64(two53)} {
		add(v)
	}
	for _, s := range []string{"", "-1", "0", "1", "1.5", "10", "2", "B", "a", "ab", "b", "1e3"} {
		add(s)
	}
	if tier == "thorough" {
		for _, v := range []int64{math.MinInt16, math.MaxInt16, math.MaxInt8, math.MinInt8, 255, 256, 65535, 65536, -2, 3} {
			add(v)
			add(float64(v) + 0.5)
			add(int(v))
		}
		for _, s := range []string{"-0.5", "127.5", "a ", " a", "A", "é", "1.50", "01"} {
			add(s)
		}
	}
	for _, v := range p.dom {
		if _, ok := v.(string); ok {
			p.kind = append(p.kind, 1)
			p.rat = append(p.rat, nil)
			continue
		}
		p.kind = append(p.kind, 0)
		p.rat = append(p.rat, toRat(v))
	}
}

func toRat(v any) *big.Rat {
	r := new(big.Rat)
	switch t := v.(type) {
	case int:
		return r.SetInt64(int64(t))
	case int8:
		return r.SetInt64(int64(t))
	case int16:
		return r.SetInt64(int64(t))
	case int32:
		return r.SetInt64(int64(t))
	case int64:
		return r.SetInt64(t)
	case uint:
		return r.SetUint64(uint64(t))
	case uint8:
		return r.SetUint64(uint64(t))
	case uint16:
		return r.SetUint64(uint64(t))
	case uint32:
		return r.SetUint64(uint64(t))
	case uint64:
		return r.SetUint64(t)
	case float32:
		r.SetFloat64(float64(t))
		return r
	case float64:
		r.SetFloat64(t)
		return r
	}
	panic("toRat")
}

// decimalText is the number's decimal text, and whether that text is unambiguous (plain decimal
// notation and %v agree); otherwise the oracle abstains on number-vs-string comparisons.
func decimalText(v any) (string, bool) {
	s := fmt.Sprintf("%v", v)
	switch t := v.(type) {
	case float32:
		return s, s == strconv.FormatFloat(float64(t), 'f', -1, 32)
	case float64:
		return s, s == strconv.FormatFloat(t, 'f', -1, 64)
	}
	return s, true
}

func (p *c15) NumCases() int { return len(p.dom) + 3 }

func show(v any) string { return fmt.Sprintf("%T(%v)", v, v) }

func (p *c15) Describe(i int) any {
	switch i - len(p.dom) {
	case 0:
		return map[string]any{"kind": "purity: Compare evaluated on every pair of the domain (extended by same-valued numbers of different Go types whose %v texts differ) in three different orders must return the same value each time"}
	case 2:
		return map[string]any{"kind": "the comparison depends on its two values only: 4 queries x every ordered pair of (two values before, two values after) over 7 mixed values, changed in place between two executions of one query; the second execution must equal a fresh query"}
	case 1:
		return map[string]any{"kind": "the comparison used by ORDER BY and WHERE: every permutation of 5 mixed numbers / numeric-looking strings sorted ASC and DESC, and every WHERE v <op> x, must agree with Compare's order"}
	}
	return map[string]any{"a": show(p.dom[i]), "against": fmt.Sprintf("all %d values b and all %d pairs (b,c) of the domain", len(p.dom), len(p.dom)*len(p.dom))}
}

func (p *c15) expected(i, j int) (int, bool) {
	a, b := p.dom[i], p.dom[j]
	switch {
	case p.kind[i] == 0 && p.kind[j] == 0:
		return p.rat[i].Cmp(p.rat[j]), true
	case p.kind[i] == 1 && p.kind[j] == 1:
		return strings.Compare(a.(string), b.(string)), true
	case p.kind[i] == 0:
		s, ok := decimalText(a)
		return strings.Compare(s, b.(string)), ok
	default:
		s, ok := decimalText(b)
		return strings.Compare(a.(string), s), ok
	}
}

func typePair(a, b any) string { return fmt.Sprintf("%T,%T", a, b) }

func (p *c15) RunCase(i int) *core.CaseResult {
	switch i - len(p.dom) {
	case 0:
		return p.runPurity()
	case 1:
		return p.runSQL()
	case 2:
		r := &core.CaseResult{}
		runChangedC15(r)
		return r
	}
	r := &core.CaseResult{Nontrivial: true}
	n := len(p.dom)
	a := p.dom[i]
	cmp := make([][]int, n) // cmp[x][y] only rows i and all needed computed lazily
	get := func(x, y int) int {
		if cmp[x] == nil {
			cmp[x] = make([]int, n)
			for k := range cmp[x] {
				cmp[x][k] = 99
			}
		}
		if cmp[x][y] == 99 {
			cmp[x][y] = compare.Compare(p.dom[x], p.dom[y])
			r.Execs++
		}
		return cmp[x][y]
	}
	if c := get(i, i); c != 0 {
		r.Fail("C15|reflexive|"+typePair(a, a), fmt.Sprintf("Compare(%s,%s)=%d, want 0", show(a), show(a), c), p.Describe(i))
	}
	for j := 0; j < n; j++ {
		b := p.dom[j]
		ab, ba := get(i, j), get(j, i)
		r.Outcomes = append(r.Outcomes, fmt.Sprintf("%d/%d/%d/%d", p.kind[i], p.kind[j], ab, ba))
		if ab < -1 || ab > 1 {
			r.Fail("C15|range|"+typePair(a, b), fmt.Sprintf("Compare(%s,%s)=%d is not in {-1,0,1}", show(a), show(b), ab), []string{show(a), show(b)})
			continue
		}
		if ab != -ba {
			r.Fail("C15|antisymmetry|"+typePair(a, b), fmt.Sprintf("Compare(%s,%s)=%d but Compare(%s,%s)=%d", show(a), show(b), ab, show(b), show(a), ba), []string{show(a), show(b)})
		}
		want, ok := p.expected(i, j)
		if !ok {
			r.Unspecified++
		} else if ab != want {
			r.Fail("C15|order|"+typePair(a, b), fmt.Sprintf("Compare(%s,%s)=%d, exact order says %d", show(a), show(b), ab, want), []string{show(a), show(b)})
		}
	}
	// transitivity within each kind
	for j := 0; j < n; j++ {
		if p.kind[j] != p.kind[i] {
			continue
		}
		for k := 0; k < n; k++ {
			if p.kind[k] != p.kind[i] {
				continue
			}
			ab, bc, ac := get(i, j), get(j, k), get(i, k)
			if ab <= 0 && bc <= 0 && !(ac <= 0) || ab == 0 && bc == 0 && ac != 0 || ab < 0 && bc < 0 && !(ac < 0) {
				r.Fail("C15|transitivity|"+fmt.Sprintf("%T,%T,%T", a, p.dom[j], p.dom[k]),
					fmt.Sprintf("cmp(%s,%s)=%d, cmp(%s,%s)=%d but cmp(%s,%s)=%d", show(a), show(p.dom[j]), ab, show(p.dom[j]), show(p.dom[k]), bc, show(a), show(p.dom[k]), ac),
					[]string{show(a), show(p.dom[j]), show(p.dom[k])})
			}
		}
	}
	return r
}

// runPurity: Compare is a function of its two arguments; no evaluation order changes a result.
func (p *c15) runPurity() *core.CaseResult {
	r := &core.CaseResult{Nontrivial: true}
	ext := append([]any{}, p.dom...)
	ext = append(ext, int(7000000), float64(7000000), int64(7000000), int32(2147483647), float64(2147483647), uint32(2147483647),
		float32(0.7), float64(float32(0.7)), float64(0.7), float32(16777216), float64(16777216), int(16777216), "7000000", "7e+06", "0.7", "2147483647", "2.147483647e+09")
	n := len(ext)
	first := make([][]int, n)
	for i := 0; i < n; i++ {
		first[i] = make([]int, n)
		for j := 0; j < n; j++ {
			first[i][j] = compare.Compare(ext[i], ext[j])
			r.Execs++
		}
	}
	// antisymmetry also on the extended domain (a number's text must not depend on which other
	// numbers were compared before)
	for i := 0; i < n; i++ {
		for j := 0; j < n; j++ {
			if first[i][j] != -first[j][i] {
				r.Fail("C15|antisymmetry|"+typePair(ext[i], ext[j]), fmt.Sprintf("Compare(%s,%s)=%d but Compare(%s,%s)=%d", show(ext[i]), show(ext[j]), first[i][j], show(ext[j]), show(ext[i]), first[j][i]), []string{show(ext[i]), show(ext[j])})
				return r
			}
		}
	}
	checkAgain := func(order string, i, j int) bool {
		c := compare.Compare(ext[i], ext[j])
		r.Execs++
		if c != first[i][j] {
			r.Fail("C15|purity|"+typePair(ext[i], ext[j]), fmt.Sprintf("Compare(%s,%s) returned %d in the first pass and %d in the %s pass", show(ext[i]), show(ext[j]), first[i][j], c, order), []string{show(ext[i]), show(ext[j])})
			return false
		}
		return true
	}
	for i := n - 1; i >= 0; i-- {
		for j := n - 1; j >= 0; j-- {
			if !checkAgain("reverse", i, j) {
				return r
			}
		}
	}
	for j := 0; j < n; j++ {
		for i := n - 1; i >= 0; i-- {
			if !checkAgain("column-major", i, j) {
				return r
			}
		}
	}
	return r
}

// runSQL: ORDER BY and WHERE use the same order as Compare, also on columns that mix numbers and strings.
func (p *c15) runSQL() *core.CaseResult {
	r := &core.CaseResult{}
	sets := [][]any{
		{"1", 2.5, "25", "3", int(4)},
		{1.0, "10", 2.0, "3", int64(5)},
		{"a", "ab", "b", "", "B"},
		{int8(-1), 0.5, uint16(3), float32(2.5), int(10)},
		// numbers whose text order differs from their numeric order, next to strings that sort after
		// every number's text (so that the order stays total)
		{10.0, 9.0, "z", -1.0, -2.0},
		{2.5, 10.0, "x", int(3), "y"},
		{100.0, 20.0, 3.0, "~", int64(-5)},
	}
	for _, set := range sets {
		n := len(set)
		want := append([]any{}, set...)
		// reference order: exact compare (numbers as rationals, strings bytewise, number vs string by decimal text)
		cmpRef := func(a, b any) int {
			_, sa := a.(string)
			_, sb := b.(string)
			switch {
			case !sa && !sb:
				return toRat(a).Cmp(toRat(b))
			case sa && sb:
				return strings.Compare(a.(string), b.(string))
			case sa:
				t, _ := decimalText(b)
				return strings.Compare(a.(string), t)
			}
			t, _ := decimalText(a)
			return strings.Compare(t, b.(string))
		}
		for i := 1; i < n; i++ {
			for j := i; j > 0 && cmpRef(want[j], want[j-1]) < 0; j-- {
				want[j], want[j-1] = want[j-1], want[j]
			}
		}
		render := func(vals []any) string {
			rows := []any{}
			for _, v := range vals {
				rows = append(rows, map[string]any{"v": v})
			}
			return gq.Render(rows)
		}
		wantAsc := render(want)
		rev := make([]any, n)
		for i := range want {
			rev[n-1-i] = want[i]
		}
		wantDesc := render(rev)
		// every permutation (Heap's algorithm)
		perm := append([]any{}, set...)
		var rec func(k int)
		rec = func(k int) {
			if len(r.Viol) > 0 {
				return
			}
			if k == 1 {
				t := []any{}
				for _, v := range perm {
					t = append(t, map[string]any{"v": v})
				}
				for _, q := range []struct{ sql, want string }{{"SELECT v FROM t ORDER BY v", wantAsc}, {"SELECT v FROM t ORDER BY v DESC", wantDesc}} {
					o := gq.Run(map[string]any{"t": gq.Clone(any(t))}, q.sql)
					r.Execs++
					if got := outcome(o); got != q.want {
						r.Fail("C15|order-by|mixed-column", fmt.Sprintf("%s on %s returned %s (%v); Compare's order gives %s", q.sql, render(perm), got, o.Err, q.want), map[string]any{"sql": q.sql, "doc": map[string]any{"t": t}})
						return
					}
				}
				r.Nontrivial = true
				return
			}
			for i := 0; i < k; i++ {
				rec(k - 1)
				if k%2 == 0 {
					perm[i], perm[k-1] = perm[k-1], perm[i]
				} else {
					perm[0], perm[k-1] = perm[k-1], perm[0]
				}
			}
		}
		rec(n)
	}
	return r
}

func (p *c15) Meta() core.Meta {
	return core.Meta{
		Rule: "one case per value a of the finite domain D (every Go numeric type x {min,-1,0,1,max of the narrow types, +-2^53 and -2^63, 2^63, 3*2^62 for 64-bit, fractions} and strings); the case evaluates Compare on all pairs (a,b),(b,a) and all triples (a,b,c) of one kind; every case is non-trivial (each value meets values of every other type); plus a purity case (all pairs of an extended domain in three evaluation orders) and an SQL case (ORDER BY ASC/DESC over every permutation of 5-element mixed columns must follow Compare's order); one changed-between-executions case (4 queries x every ordered pair of value pairs over 7 mixed values changed in place between two executions of one Query, against a fresh Query)",
		Assumptions: []string{
			"numbers are compared as exact rationals (big.Rat); strings bytewise; number vs string by the number's %v text, abstaining when %v is not plain decimal notation",
			"values beyond +-2^53 in 64-bit types are outside the property ('exactly-representable range')",
		},
		Bounds:     map[string]any{"domain_size": len(p.dom), "pairs": len(p.dom) * len(p.dom), "triples": len(p.dom) * len(p.dom) * len(p.dom)},
		Exhaustive: true,
	}
}
