package props

import (
	"fmt"
	"github.com/vedadiyan/genql"
	"sort"
	"strings"

	"verif/harness/core"
	"verif/harness/gq"
	. "verif/harness/sqlm"
)

// C02: projection emits one row per kept row with correctly computed columns.

type c02case struct {
	kind  int // 0 expression, 1 select-list shape
	expr  Expr
	items []Item
	where Expr
}

type c02 struct {
	tier   string
	cases  []c02case
	rows6  []any
	tables [][]any
}

func init() { core.Register("C02", func() core.Prop { return &c02{} }) }

func (p *c02) ID() string { return "C02" }

func c02Rows() []any {
	return []any{
		map[string]any{"id": 0.0, "a": -3.0, "d": 2.0, "o": map[string]any{"p": map[string]any{"q": 7.0}}, "s": "x", "c": true},
		// a key that is spelled like a nested path next to the nested object itself: the path wins
		map[string]any{"id": 1.0, "a": 1.5, "d": 0.5, "o": map[string]any{"p": map[string]any{"q": 1.0}}, "s": "y", "c": false, "o.p.q": 99.0, "o.p": "flat"},
		map[string]any{"id": 2.0, "a": 0.0, "d": 0.0, "o": map[string]any{"p": map[string]any{"q": 0.0}}, "s": "", "c": true},
		map[string]any{"id": 3.0, "a": 6.0, "o": map[string]any{"p": map[string]any{}}, "s": "x", "c": false, "o.p.q": 98.0},
		map[string]any{"id": 4.0, "a": 5.0, "d": nil, "o": map[string]any{"p": map[string]any{"q": 2.0}}, "s": "z", "c": true},
		map[string]any{"id": 5.0, "a": 12.0, "d": 10.0, "s": "w", "c": false},
	}
}

var c02BinOps = []string{"+", "-", "*", "/", "DIV", "%", "&", "|", "^", "<<", ">>"}

func (p *c02) Init(tier string) {
	p.tier = tier
	p.rows6 = c02Rows()
	leaves := []Expr{Col{"a"}, Col{"d"}, Col{"zz"}, Col{"o.p.q"}, Lit{V: 2.0}, Lit{V: 0.5}, Lit{V: 3.0}, Lit{V: -1.0}}
	// constants that single precision cannot hold, as leaves of + - * / and alone
	for _, f := range []float64{0.1, 2.7, 16777217, 1e40} {
		p.cases = append(p.cases, c02case{kind: 0, expr: Lit{V: f}})
		for _, op := range []string{"+", "-", "*", "/"} {
			p.cases = append(p.cases, c02case{kind: 0, expr: Bin{op, Col{"a"}, Lit{V: f}}}, c02case{kind: 0, expr: Bin{op, Lit{V: f}, Col{"d"}}})
		}
	}
	add := func(e Expr) { p.cases = append(p.cases, c02case{kind: 0, expr: e}) }
	for _, l := range leaves {
		add(l)
	}
	add(Lit{V: "str"})
	add(Lit{V: ""})
	add(Col{"s"})
	add(Col{"c"})
	add(Col{"o"})
	add(Col{"o.p"})
	var depth1 []Expr
	for _, op := range c02BinOps {
		for _, l := range leaves {
			for _, r := range leaves {
				e := Bin{op, l, r}
				depth1 = append(depth1, e)
				add(e)
			}
		}
	}
	for _, l := range leaves {
		add(Un{"-", l})
		add(Un{"~", l})
	}
	conds := []Expr{Cmp{">", Col{"a"}, Lit{V: 1.0}}, Cmp{"=", Col{"d"}, Lit{V: 0.5}}, Cmp{"<", Col{"a"}, Col{"d"}}, Cmp{"=", Col{"c"}, Lit{V: true}}, Cmp{">=", Col{"o.p.q"}, Lit{V: 2.0}}, Cmp{"=", Col{"s"}, Lit{V: "x"}}}
	for _, c := range conds {
		add(c)
		add(Un{"!", c})
		add(Un{"!", Un{"!", c}})
	}
	add(Un{"!", Col{"c"}})
	vals := []Expr{Col{"a"}, Col{"d"}, Col{"zz"}, Lit{V: 2.0}, Lit{V: "str"}, Bin{"+", Col{"a"}, Lit{V: 1.0}}, Col{"s"}, Lit{V: nil}}
	for _, c := range conds {
		for _, v := range vals {
			add(Case{Whens: []When{{c, v}}})
			for _, e := range vals {
				add(Case{Whens: []When{{c, v}}, Else: e})
			}
		}
	}
	for ci, c1 := range conds {
		for _, c2 := range conds[ci:] {
			for _, v := range vals[:4] {
				add(Case{Whens: []When{{c1, v}, {c2, Lit{V: "second"}}}, Else: Col{"a"}})
				add(Case{Whens: []When{{c1, Lit{V: 1.0}}, {c2, v}}})
			}
		}
	}
	// conditions and branches without any column (constant true / false) around branches that read
	// the row: nothing about such a CASE is the same for every row
	constConds := []Expr{Cmp{"<", Lit{V: 2.0}, Lit{V: 1.0}}, Cmp{"=", Lit{V: 1.0}, Lit{V: 1.0}}, Cmp{"=", Lit{V: "x"}, Lit{V: "y"}}}
	for _, cc := range constConds {
		for _, v := range []Expr{Col{"a"}, Col{"zz"}, Col{"o.p.q"}, Bin{"+", Col{"a"}, Lit{V: 1.0}}} {
			add(Case{Whens: []When{{cc, Lit{V: 0.0}}}, Else: v})
			add(Case{Whens: []When{{cc, v}}, Else: Lit{V: 0.0}})
			add(Case{Whens: []When{{cc, Lit{V: 0.0}}, {constConds[0], Lit{V: "k"}}}, Else: v})
			add(Bin{"+", Case{Whens: []When{{cc, Lit{V: 1.0}}}, Else: v}, Lit{V: 1.0}})
		}
	}
	// shift counts at and beyond the operand width: every bit is shifted out (a count is not taken
	// modulo 64); counts from a constant, from a column and from a sub-expression
	for _, op := range []string{"<<", ">>"} {
		for _, l := range []Expr{Col{"a"}, Col{"o.p.q"}, Lit{V: 1.0}, Lit{V: 3.0}, Lit{V: 1024.0}} {
			for _, n := range []float64{31, 32, 33, 52, 62, 63, 64, 65, 66, 100, 127, 128, 1000} {
				add(Bin{op, l, Lit{V: n}})
			}
			add(Bin{op, l, Bin{"+", Col{"o.p.q"}, Lit{V: 60.0}}})
			add(Bin{op, l, Bin{"*", Col{"o.p.q"}, Lit{V: 32.0}}})
		}
	}
	// string literals spelled like the numeric literals used all over this check
	for _, sl := range []string{"2", "0.5", "3", "-1", "1", "0", "100"} {
		add(Lit{V: sl})
		add(Case{Whens: []When{{conds[0], Lit{V: sl}}}, Else: Lit{V: 2.0}})
	}
	// depth 2: representative set x leaves, both sides
	// (operands that are not plain binary nodes come first, so that the quick tier's cut keeps them:
	// unary over a column, CASE, and a nested path)
	rep := []Expr{Un{"-", Col{"a"}}, Un{"~", Col{"d"}}, Un{"-", Col{"o.p.q"}},
		Case{Whens: []When{{conds[0], Lit{V: 100.0}}}, Else: Lit{V: 200.0}},
		Case{Whens: []When{{conds[3], Col{"a"}}}, Else: Col{"d"}}}
	for i, e := range depth1 {
		if i%12 == 0 {
			rep = append(rep, e)
		}
	}
	nrep := len(rep)
	if tier == "quick" && nrep > 40 {
		rep = rep[:40]
	}
	for _, op := range c02BinOps {
		for _, x := range rep {
			for _, l := range leaves {
				add(Bin{op, x, l})
				add(Bin{op, l, x})
			}
			if tier == "thorough" {
				for _, y := range rep {
					add(Bin{op, x, y})
				}
			}
		}
	}
	for _, x := range rep {
		add(Un{"-", x})
		add(Un{"~", x})
		add(Case{Whens: []When{{Cmp{">", x, Lit{V: 1.0}}, x}}, Else: Un{"-", x}})
	}
	// select-list shapes
	menu := []Item{
		{E: Col{"a"}}, {E: Col{"d"}}, {E: Col{"o.p.q"}}, {E: Col{"zz"}}, {E: Col{"a"}, As: "nextId"}, {E: Col{"d"}, As: "a"},
		{E: Bin{"+", Col{"a"}, Lit{V: 1.0}}, As: "X"}, {E: Lit{V: "2"}, As: "s2"}, {E: Case{Whens: []When{{conds[0], Col{"d"}}}, Else: Lit{V: 0.0}}, As: "k"},
		{Star: true}, {E: Col{"o"}}, {E: Col{"id"}}, {E: Cmp{">", Col{"a"}, Lit{V: 1.0}}, As: "f"},
	}
	wheres := []Expr{nil, Cmp{">", Col{"a"}, Lit{V: 0.0}}, Cmp{"=", Col{"s"}, Lit{V: "x"}}}
	for _, w := range wheres {
		for _, i1 := range menu {
			p.cases = append(p.cases, c02case{kind: 1, items: []Item{i1}, where: w})
			for _, i2 := range menu {
				p.cases = append(p.cases, c02case{kind: 1, items: []Item{i1, i2}, where: w})
				if w != nil && tier == "quick" {
					continue
				}
				for _, i3 := range menu {
					p.cases = append(p.cases, c02case{kind: 1, items: []Item{i1, i2, i3}, where: w})
				}
			}
		}
	}
	// tables for shape cases: all sequences of <= 2 (thorough 3) archetype rows
	maxRows := 2
	if tier == "thorough" {
		maxRows = 3
	}
	var rec func(cur []int)
	rec = func(cur []int) {
		rows := []any{}
		for i, k := range cur {
			row := gq.CloneMap(p.rows6[k].(map[string]any))
			row["id"] = float64(i)
			rows = append(rows, row)
		}
		p.tables = append(p.tables, rows)
		if len(cur) == maxRows {
			return
		}
		for k := range p.rows6 {
			rec(append(append([]int{}, cur...), k))
		}
	}
	rec(nil)
	// one larger table (every archetype several times, in a fixed irregular order)
	{
		rows := []any{}
		for i := 0; i < 29; i++ {
			row := gq.CloneMap(p.rows6[(i*5+i/4)%len(p.rows6)].(map[string]any))
			row["id"] = float64(i)
			rows = append(rows, row)
		}
		p.tables = append(p.tables, rows)
	}
}

func (p *c02) NumCases() int { return len(p.cases) + 2 }

// runManyColumns: 1200 queries, each naming a column no earlier query of this process has named
// (the selector cache is process-wide and only grows): every one must project its own column.
func (p *c02) runManyColumns(r *core.CaseResult) {
	for i := 0; i < 1200; i++ {
		col := fmt.Sprintf("col_%d_x", i)
		doc := map[string]any{"t": []any{map[string]any{"id": 0.0, col: float64(i)}, map[string]any{"id": 1.0, col: float64(-i)}}}
		sql := fmt.Sprintf("SELECT %s AS v, %s * 2 + 1 AS w, id FROM t", col, col)
		o := gq.Run(doc, sql)
		r.Execs++
		want := gq.Render([]any{map[string]any{"v": float64(i), "w": float64(2*i + 1), "id": 0.0}, map[string]any{"v": float64(-i), "w": float64(-2*i + 1), "id": 1.0}})
		if got := outcome(o); got != want {
			r.Fail("C02|many-columns|value", fmt.Sprintf("%s (the %d-th distinct column name of this process) returned %s (%v), want %s", sql, i+1, got, o.Err, want), map[string]any{"sql": sql, "doc": doc, "distinct_columns_before": i})
			return
		}
	}
	r.Nontrivial = true
}

func (p *c02) sqlOf(c *c02case) string {
	if c.kind == 0 {
		return NewSelect("t", Item{E: Col{"id"}}, Item{E: c.expr, As: "v"}).SQL()
	}
	s := NewSelect("t", c.items...)
	s.Where = c.where
	return s.SQL()
}

func (p *c02) Describe(i int) any {
	if i == len(p.cases)+1 {
		return map[string]any{"kind": "explicit statements: `*` over dual with CTEs in scope (the key set is the document's, whatever the select list evaluated before), literals under PostgresEscapingDialect, mixed-depth tables"}
	}
	if i == len(p.cases) {
		return map[string]any{"kind": "1200 queries, each projecting a column name never used before in this process"}
	}
	c := &p.cases[i]
	if c.kind == 0 {
		return map[string]any{"query": p.sqlOf(c), "table": "the 6 archetype rows (negative, fraction, zero, missing key, NULL, no nested object) and the empty table"}
	}
	return map[string]any{"query": p.sqlOf(c), "tables": fmt.Sprintf("all %d tables of <= %d archetype rows", len(p.tables), map[string]int{"quick": 2, "thorough": 3}[p.tier])}
}

func exprKind(e Expr) string {
	switch e := e.(type) {
	case Col:
		if strings.Contains(e.Name, ".") {
			return "path"
		}
		return "col"
	case Lit:
		return "lit"
	case Bin:
		return "bin(" + e.Op + ")"
	case Un:
		return "un(" + e.Op + ")"
	case Cmp:
		return "cmp"
	case Case:
		return "case"
	}
	return "other"
}

// itemKey is the output key the property prescribes for an item ("" for star).
func itemKey(it Item) string {
	if it.As != "" {
		return it.As
	}
	if c, ok := it.E.(Col); ok {
		return c.Name
	}
	return ""
}

// runExplicit: statements whose expected result is written out.
func (p *c02) runExplicit(r *core.CaseResult) {
	doc := func() map[string]any {
		return map[string]any{"t": []any{map[string]any{"id": 0.0, "a": 1.0}, map[string]any{"id": 1.0, "a": 2.0}}, "k": "v",
			"m": []any{map[string]any{"id": 0.0, "a": 1.0}, []any{map[string]any{"id": 1.0, "a": 2.0}, map[string]any{"id": 2.0, "a": 0.0}}, map[string]any{"id": 3.0, "a": 5.0}}}
	}
	docStar := func(extra map[string]any) []any {
		row := doc()
		for k, v := range extra {
			row[k] = v
		}
		return []any{row}
	}
	cases := []struct {
		sql  string
		opts []genql.QueryOption
		want []any
	}{
		// `*` over dual: exactly the document's keys, whether or not a CTE in scope has been evaluated
		{"WITH c AS (SELECT a FROM t) SELECT * FROM dual", nil, docStar(nil)},
		{"WITH c AS (SELECT a FROM t) SELECT (SELECT a FROM c LIMIT 1) AS q, * FROM dual", nil, docStar(map[string]any{"q": []any{map[string]any{"a": 1.0}}})},
		{"WITH c AS (SELECT a FROM t) SELECT *, (SELECT COUNT(*) AS n FROM c) AS q FROM dual", nil, docStar(map[string]any{"q": []any{map[string]any{"n": 2.0}}})},
		{"WITH c AS (SELECT a FROM t), d AS (SELECT a FROM c WHERE a > 1) SELECT (SELECT a FROM d) AS q, * FROM dual", nil, docStar(map[string]any{"q": []any{map[string]any{"a": 2.0}}})},
		// literals under the dialect option: a backslash before a character that needs no escaping
		{"SELECT id, 'caf\\é' AS v, CASE WHEN a > 1 THEN 'th\\é' ELSE 'x\\'' END AS w FROM t", []genql.QueryOption{genql.PostgresEscapingDialect()},
			[]any{map[string]any{"id": 0.0, "v": "café", "w": "x'"}, map[string]any{"id": 1.0, "v": "café", "w": "thé"}}},
		{"SELECT id, 'caf\\é' AS v FROM t WHERE a > 1", nil, []any{map[string]any{"id": 1.0, "v": "café"}}},
		// a table of mixed depth (rows next to inner arrays): every row is filtered and projected where it sits
		{"SELECT id FROM m WHERE a > 1", nil, []any{[]any{map[string]any{"id": 1.0}}, map[string]any{"id": 3.0}}},
		{"SELECT id, a + 1 AS b FROM m WHERE a < 5", nil, []any{map[string]any{"id": 0.0, "b": 2.0}, []any{map[string]any{"id": 1.0, "b": 3.0}, map[string]any{"id": 2.0, "b": 1.0}}}},
		{"SELECT id FROM m WHERE a > 100", nil, []any{[]any{}}},
	}
	for _, c := range cases {
		o := gq.Run(doc(), c.sql, c.opts...)
		r.Execs++
		if got, want := outcome(o), gq.Render(c.want); got != want {
			r.Fail("C02|explicit|keys-or-values", fmt.Sprintf("%s returned %s (%v), want %s", c.sql, got, o.Err, want), map[string]any{"sql": c.sql, "doc": doc()})
		}
	}
	r.Nontrivial = true
}

func (p *c02) RunCase(i int) *core.CaseResult {
	defer withNoise()()
	if i == len(p.cases)+1 {
		r := &core.CaseResult{}
		p.runExplicit(r)
		return r
	}
	if i == len(p.cases) {
		r := &core.CaseResult{}
		p.runManyColumns(r)
		return r
	}
	r := &core.CaseResult{}
	defer withUsage(r, "C02")()
	c := &p.cases[i]
	sql := p.sqlOf(c)
	if c.kind == 0 {
		kind := exprKind(c.expr)
		for _, rows := range [][]any{p.rows6, {}} {
			doc := map[string]any{"t": gq.Clone(rows)}
			// reference: per row value, abstaining rows tracked
			type exp struct {
				v  any
				ok bool
			}
			want := make([]exp, len(rows))
			allOK := true
			for k, row := range rows {
				v, ok := Eval(c.expr, row.(map[string]any), nil)
				want[k] = exp{v, ok}
				if !ok {
					allOK = false
				}
			}
			out := gq.Run(doc, sql)
			r.Execs++
			cs := map[string]any{"sql": sql, "doc": doc}
			if out.Panic != "" || out.GPanic != "" {
				r.Fail("C02|expr|"+kind+"|"+out.Status(), fmt.Sprintf("%s: %s %s%s", sql, out.Status(), out.Panic, out.GPanic), cs)
				continue
			}
			if out.Err != nil {
				if allOK {
					r.Fail("C02|expr|"+kind+"|error", fmt.Sprintf("%s: reference defines every row's value but the query failed: %v", sql, out.Err), cs)
				} else {
					r.Unspecified++
				}
				continue
			}
			if len(out.Rows) != len(rows) {
				r.Fail("C02|expr|"+kind+"|cardinality", fmt.Sprintf("%s: %d rows out for %d rows in", sql, len(out.Rows), len(rows)), cs)
				continue
			}
			if len(rows) > 0 && allOK {
				r.Nontrivial = true
			}
			for k := range rows {
				m, isMap := out.Rows[k].(map[string]any)
				if !isMap || len(m) != 2 {
					r.Fail("C02|expr|"+kind+"|keys", fmt.Sprintf("%s: row %d is %s, want keys {id,v}", sql, k, gq.Render(out.Rows[k])), cs)
					break
				}
				if _, has := m["v"]; !has {
					r.Fail("C02|expr|"+kind+"|keys", fmt.Sprintf("%s: row %d is %s, want keys {id,v}", sql, k, gq.Render(out.Rows[k])), cs)
					break
				}
				if gq.Render(m["id"]) != gq.Render(float64(k)) {
					r.Fail("C02|expr|"+kind+"|row-identity", fmt.Sprintf("%s: row %d carries id %s", sql, k, gq.Render(m["id"])), cs)
					break
				}
				if !want[k].ok {
					r.Unspecified++
					continue
				}
				if gq.Render(m["v"]) != gq.Render(want[k].v) {
					r.Fail("C02|expr|"+kind+"|value", fmt.Sprintf("%s: row %s gives v=%s, reference %s", sql, gq.Render(rows[k]), gq.Render(m["v"]), gq.Render(want[k].v)), cs)
					break
				}
				r.Outcomes = append(r.Outcomes, gq.Render(want[k].v))
			}
			// row independence (implementation vs implementation, also where the reference abstains):
			// a row's value must not depend on which other rows are in the table or on their order -
			// "no other row's data ever appears in an output row"
			if len(rows) > 1 && len(r.Viol) == 0 {
				byID := map[string]string{}
				for _, x := range out.Rows {
					m := x.(map[string]any)
					byID[gq.Render(m["id"])] = gq.Render(m["v"])
				}
				rev := make([]any, len(rows))
				for k := range rows {
					rev[len(rows)-1-k] = rows[k]
				}
				variants := [][]any{rev}
				for k := range rows {
					variants = append(variants, []any{rows[k]})
				}
				for _, vr := range variants {
					o := gq.Run(map[string]any{"t": gq.Clone(vr)}, sql)
					r.Execs++
					if o.Failed() {
						continue // the whole-table run succeeded, so no row fails by itself; a failure here is C19's matter
					}
					for _, x := range o.Rows {
						m, _ := x.(map[string]any)
						if m == nil {
							continue
						}
						if got, want := gq.Render(m["v"]), byID[gq.Render(m["id"])]; got != want {
							r.Fail("C02|expr|"+kind+"|row-dependence", fmt.Sprintf("%s: the row with id %s gives v=%s in the 6-row table but v=%s in the table %s", sql, gq.Render(m["id"]), want, got, gq.Render(vr)), map[string]any{"sql": sql, "doc": map[string]any{"t": vr}, "other_doc": doc})
							break
						}
					}
				}
			}
		}
		return r
	}
	// select-list shape
	shape := ""
	for k, it := range c.items {
		if k > 0 {
			shape += ","
		}
		switch {
		case it.Star:
			shape += "*"
		case it.As != "":
			shape += exprKind(it.E) + "-as"
		default:
			shape += exprKind(it.E)
		}
	}
	for _, rows := range p.tables {
		doc := map[string]any{"t": gq.Clone(rows)}
		kept, ok := Filter(rows, c.where, nil)
		if !ok {
			r.Unspecified++
			continue
		}
		out := gq.Run(doc, sql)
		r.Execs++
		cs := map[string]any{"sql": sql, "doc": doc}
		if out.Panic != "" || out.GPanic != "" {
			r.Fail("C02|list|"+shape+"|"+out.Status(), fmt.Sprintf("%s: %s %s%s", sql, out.Status(), out.Panic, out.GPanic), cs)
			continue
		}
		// expected rows
		type cand struct{ vals []string }
		bad := false
		unspec := false
		var wantRows []map[string]cand
		for _, row := range kept {
			m := row.(map[string]any)
			w := map[string]cand{}
			for _, it := range c.items {
				if it.Star {
					for k, v := range m {
						w[k] = cand{append(w[k].vals, gq.Render(v))}
					}
					continue
				}
				v, ok := Eval(it.E, m, nil)
				if !ok {
					unspec = true
				}
				key := itemKey(it)
				w[key] = cand{append(w[key].vals, gq.Render(v))}
			}
			wantRows = append(wantRows, w)
		}
		if out.Err != nil {
			if unspec {
				r.Unspecified++
			} else {
				r.Fail("C02|list|"+shape+"|error", fmt.Sprintf("%s: failed: %v", sql, out.Err), cs)
			}
			continue
		}
		if unspec {
			r.Unspecified++
			continue
		}
		if len(out.Rows) != len(kept) {
			r.Fail("C02|list|"+shape+"|cardinality", fmt.Sprintf("%s: %d rows out, %d rows pass WHERE (of %d)", sql, len(out.Rows), len(kept), len(rows)), cs)
			continue
		}
		if len(kept) > 0 {
			r.Nontrivial = true
		}
		for k := range kept {
			m, isMap := out.Rows[k].(map[string]any)
			if !isMap {
				r.Fail("C02|list|"+shape+"|keys", fmt.Sprintf("%s: row %d is not an object: %s", sql, k, gq.Render(out.Rows[k])), cs)
				bad = true
				break
			}
			w := wantRows[k]
			var gk, wk []string
			for key := range m {
				gk = append(gk, key)
			}
			for key := range w {
				wk = append(wk, key)
			}
			sort.Strings(gk)
			sort.Strings(wk)
			if strings.Join(gk, "\x00") != strings.Join(wk, "\x00") {
				r.Fail("C02|list|"+shape+"|keys", fmt.Sprintf("%s: row %d has keys %q, want %q", sql, k, gk, wk), cs)
				bad = true
				break
			}
			for key, cd := range w {
				g := gq.Render(m[key])
				found := false
				for _, v := range cd.vals {
					if v == g {
						found = true
					}
				}
				if !found {
					r.Fail("C02|list|"+shape+"|value", fmt.Sprintf("%s: row %d key %q = %s, want one of %v (source row %s)", sql, k, key, g, cd.vals, gq.Render(kept[k])), cs)
					bad = true
					break
				}
			}
			if bad {
				break
			}
		}
		if !bad {
			r.Outcomes = append(r.Outcomes, fmt.Sprintf("%d rows/%s", len(kept), shape))
		}
	}
	return r
}

func (p *c02) Meta() core.Meta {
	return core.Meta{
		Rule: "expression cases: every depth-1 tree (11 binary ops x 8 leaves^2, unary - ~ on leaves, ! on comparisons), CASE WHEN with 1-2 branches with/without ELSE, and depth-2 trees (representative depth-1 set x leaves, thorough: x representative set), each as SELECT id, e AS v over the 6 archetype rows and the empty table; shape cases: every select list of 1-3 items from a 13-item menu (columns, nested path, missing key, aliases, duplicate aliases, *, expressions) x {no WHERE, 2 WHEREs} over all tables of <= 2 (thorough 3) archetype rows and one table of 29 rows; non-trivial = at least one row with a defined reference value / at least one kept row; shift counts at and beyond the operand width (31 ... 1000) from a constant, a column and a sub-expression",
		Assumptions: []string{
			"reference: IEEE double arithmetic; DIV truncates toward zero on integer-valued operands; % is fmod; & | ^ << >> on non-negative integers < 2^53; ~ is 64-bit two's complement; abstains on division by zero, non-finite results, NULL under unary operators, non-integer bit operands",
			"for a key produced by two items of one select list either item's value is accepted (the property fixes the key set, not which duplicate wins)",
		},
		Bounds:     map[string]any{"cases": len(p.cases), "shape_tables": len(p.tables)},
		Exhaustive: true,
	}
}
