package props

import (
	"github.com/vedadiyan/genql"
	sanitize "github.com/vedadiyan/genql/sanitizer"
	"strings"
	"verif/harness/core"
	"verif/harness/gq"
)

// History noise.  The library keeps process-wide state (selector cache, function registries) and a
// change may add more (pools, memo tables, scratch buffers).  A result must not depend on what the
// process did before: withNoise() puts one operation of a rotating menu in front of every
// execution of the running case - operations that FAIL part-way through a clause (so that a
// cleanup skipped on an error path leaves something behind) and ordinary successful ones that
// exercise the same machinery with different data.  The case's own oracle then decides; every
// noise operation runs on its own document.

type noiseOp struct {
	sql   string
	opts  []genql.QueryOption
	fault int
}

// noiseDoc: the row that makes clause evaluation fail (id 91) is put at every position in turn, so
// that the failure strikes after 0, 1 or 2 rows have been processed.
func noiseDoc() map[string]any {
	d := noiseDocBase()
	rows := d["nz"].([]any)
	k := (noiseCounter / len(noiseMenu)) % len(rows)
	d["nz"] = append(append([]any{}, rows[k:]...), rows[:k]...)
	return d
}

func noiseDocBase() map[string]any {
	return map[string]any{
		"nz": []any{
			map[string]any{"id": 90.0, "g": "n1", "w": 1.0, "k": map[string]any{"v": 2.0}, "b": map[string]any{"c": 1.0}, "s": "plain", "items": []any{map[string]any{"q": 9.0}}},
			map[string]any{"id": 92.0, "g": "n1", "w": 3.0, "k": map[string]any{"v": 1.0}, "b": map[string]any{"c": 2.0}, "s": "plain", "items": []any{}},
			map[string]any{"id": 91.0, "g": "n2", "w": "not a number", "k": 5.0, "b": 7.0, "s": "other", "items": []any{"not an object"}},
		},
		"nu": []any{map[string]any{"g": "n1", "c": 1.0}, map[string]any{"g": "n2", "c": 2.0}, map[string]any{"g": "n1", "c": 3.0}},
	}
}

var noiseMenu = []noiseOp{
	{sql: "SELECT id, k FROM nz ORDER BY `k.v`"},                                                                      // sort fails on the last row, after keys of earlier rows were read
	{sql: "SELECT g, COUNT(*) AS c FROM nz GROUP BY g HAVING SUM(w) > 0"},                                             // HAVING fails on the second group
	{sql: "SELECT * FROM nz x JOIN nu y ON x.g = y.g AND x.`b.c` = y.c"},                                              // key extraction fails mid-row
	{sql: "SELECT * FROM nz x LEFT JOIN nu y ON x.id > y.c AND FAULTB(y.c)", fault: 2},                                // ON fails after a match
	{sql: "SELECT id FROM nz WHERE s LIKE 'plain'"},                                                                   // wildcard-free LIKE (succeeds)
	{sql: "SELECT id FROM nz WHERE s LIKE 'p%' OR s LIKE '('"},                                                        // succeeds
	{sql: "SELECT \"id\" FROM \"nz\" WHERE \"g\" = 'a\\", opts: []genql.QueryOption{genql.PostgresEscapingDialect()}}, // rejected by the rewriter
	{sql: "SELECT [1, [2 AS arr FROM nz", opts: []genql.QueryOption{genql.IdomaticArrays()}},                          // rejected by the rewriter
	{sql: "SELECT `items::[zz]` AS v FROM nz"},                                                                        // selector fails to parse in a later stage
	{sql: "SELECT `items[(0:1:2)]` AS v FROM nz"},                                                                     // selector fails to parse
	{sql: "SELECT DISTINCT g, FAULT(w) AS w FROM nz", fault: 2},                                                       // select list fails on the second row
	{sql: "SELECT id FROM nz WHERE FAULT(id) > 0 ORDER BY id DESC LIMIT 1", fault: 3},                                 // WHERE fails on the last row
	{sql: "SELECT SUM(g) AS s, COUNT(*) AS c FROM nz"},                                                                // aggregate fails
	{sql: "SELECT HASH(s, 'nosuchalg') AS h, ENCODE(items, 'hex') AS e FROM nz"},                                      // function calls fail after partial work
	{sql: "SELECT id FROM nz WHERE EXISTS (SELECT q FROM items WHERE q > 0)"},                                         // EXISTS fails on a non-object element
	{sql: "SELECT g FROM nz UNION SELECT FAULT(g) AS g FROM nu", fault: 2},                                            // right union branch fails
	{sql: "WITH c AS (SELECT id, FAULT(g) AS g FROM nz) SELECT * FROM c x JOIN c y ON x.id = y.id", fault: 3},
	{sql: "SELECT id, (SELECT FAULT(q) AS q FROM items) AS s FROM nz", fault: 1},
	{sql: "SELECT g, COUNT(*) AS c, SUM(id) AS s FROM nz GROUP BY g ORDER BY g DESC"}, // succeeds
	{sql: "SELECT id FROM nz ORDER BY s, id DESC LIMIT 2 OFFSET 1"},                   // succeeds
	{sql: "SELECT ASYNC.HPANIC(id) AS p, id FROM nz"},                                 // goroutine-run call panics
}

var noiseCounter int

func noiseStep() {
	op := &noiseMenu[noiseCounter%len(noiseMenu)]
	noiseCounter++
	savedCount, savedAt, savedOnce := faultCount, faultAt, hOnceCounter
	resetFaults(op.fault)
	opts := append(append([]genql.QueryOption{}, op.opts...), genql.UnReportedErrors(func(error) {}))
	gq.Run(noiseDoc(), op.sql, opts...)
	if noiseCounter%7 == 0 {
		// rejected sanitizer calls (text already emitted before the failure)
		sanitizeNoPanic("SELECT $1 AS v, $2 AS w FROM dual -- ", "evil")
		sanitize.SanitizeSQL("SELECT 'x', $1, $0", "evil")
	}
	faultCount, faultAt, hOnceCounter = savedCount, savedAt, savedOnce
}

// withNoise switches history noise on for the running case; the returned function switches it off.
func withNoise() func() {
	gq.BeforeRun = noiseStep
	return func() { gq.BeforeRun = nil }
}

// withUsage turns on the API-usage differential of gq.Call (a result edited by the caller and the
// same Query executed again; the document untouched by edits of a result; Parse + Prepare with
// zero-valued Options) for every query the case runs; discrepancies become violations of the case.
// Usage: r := &core.CaseResult{}; defer withUsage(r, "C01")()
func withUsage(r *core.CaseResult, id string) func() {
	seen := map[string]bool{}
	gq.Usage = func(what string) {
		kind := "re-exec"
		switch {
		case strings.Contains(what, "Prepare") && strings.Contains(what, "changed the document"):
			kind = "prepare-path-modifies-document"
		case strings.Contains(what, "changed the document"):
			kind = "result-aliases-document"
		case strings.Contains(what, "already used for another document"):
			kind = "options-reused"
		case strings.Contains(what, "Parse + Prepare"):
			kind = "prepare-path"
		case strings.Contains(what, "panic during"):
			kind = "panic"
		}
		if seen[kind] {
			return
		}
		seen[kind] = true
		r.Fail(id+"|api-usage|"+kind, what, map[string]any{"what": what})
	}
	return func() { gq.Usage = nil }
}
