package props

import (
	"fmt"
	"sort"
	"strings"

	"github.com/vedadiyan/genql"
	"github.com/vedadiyan/genql/vrt"
	"verif/harness/core"
	"verif/harness/gq"
	"verif/harness/racemon"
)

// C13: concurrent queries are free of data races, crashes and cross-talk.
//
// Two (thorough: three) harness threads each construct and execute one query on the real engine;
// every interleaving of their synchronisation operations (and of the library's own goroutines)
// with at most `bound` preemptions is executed.  The race detector runs on every explored
// schedule (the scheduler's hand-off is invisible to it), a deadlock or goroutine panic is
// reported by the scheduler, and each thread's result is compared with its solo result.

type c13query struct {
	name string
	sql  string // %d is replaced by a per-thread number so that selector texts are fresh per thread
	bag  bool   // compare as a multiset (joins)
	// noopts: New is called without any option; mayFail: the query may fail alone (then it must fail
	// the same way under every schedule)
	noopts  bool
	mayFail bool
	// single: only run as a single-query harness (the parallelism is the query's own)
	single bool
	// pg: built with PostgresEscapingDialect; expect: the rows the query must return alone (rendered),
	// checked in addition to "same as the solo run" - a solo run can itself be a victim of state left
	// behind by the solo run of the other thread
	pg       bool
	expect   string
	expectFn func() []string // the same, computed from the document
	// edit: the thread edits the rows it was given (top-level keys only: a result belongs to its caller)
	edit bool
}

var c13Queries = []c13query{
	{name: "filter", sql: "SELECT id FROM t WHERE a > 1"},
	{name: "projection", sql: "SELECT id, a + %d AS x%d, `o.p` AS p FROM t"},
	{name: "fresh-path", sql: "SELECT `o.p%d` AS p, id FROM t WHERE a >= 1"},
	{name: "group-by", sql: "SELECT g, COUNT(*) AS c, SUM(a) AS s FROM t GROUP BY g"},
	{name: "join", sql: "SELECT * FROM t x JOIN u y ON x.g = y.g", bag: true},
	{name: "parallel-join", sql: "SELECT * FROM t x PARALLEL JOIN u y ON x.g = y.g", bag: true},
	{name: "parallel-nested-join", sql: "SELECT * FROM t x PARALLEL LEFT JOIN u y ON x.a <= y.b", bag: true},
	{name: "async", sql: "SELECT id, ASYNC.HMID(a) AS m FROM t"},
	{name: "spinasync", sql: "SELECT id, SPINASYNC.HMID(a) FROM t"},
	{name: "cte", sql: "WITH c AS (SELECT id, a FROM t WHERE a > 1) SELECT id FROM c"},
	{name: "subquery-in", sql: "SELECT id FROM t WHERE a IN (SELECT b FROM `<-u`)"},
	{name: "exists", sql: "SELECT id FROM t WHERE EXISTS (SELECT q FROM items WHERE q > 0)"},
	{name: "order-distinct", sql: "SELECT DISTINCT g FROM t ORDER BY g DESC"},
	{name: "vars", sql: "SELECT SETVAR('k', a), GETVAR('k') AS v FROM t"},
	// the same statement text in every thread: a parsed statement must not be shared between builds
	// (building a UNION or a JOIN ... USING writes into the AST)
	{name: "union", sql: "SELECT id FROM t UNION ALL SELECT rid FROM u"},
	{name: "join-using", sql: "SELECT * FROM t x JOIN u y USING (g)", bag: true},
	// queries built without any option: nothing but the selector cache and the registries may be shared
	{name: "getvar-no-options", sql: "SELECT id, GETVAR('k') AS v FROM t", noopts: true},
	{name: "setvar-no-options", sql: "SELECT SETVAR('k', a), id FROM t", noopts: true, mayFail: true},
	// a FROM path with an open-ended range: `end` is resolved per evaluation (the parsed selector is
	// shared through the process-wide cache)
	{name: "range-end", sql: "SELECT id FROM `t[(1:end)]`"},
	// a WITH clause inside a derived table (the statement itself has none): its CTE must stay private to
	// the query even when the document is shared; the second kind reads a table of that name
	{name: "with-in-derived", sql: "SELECT * FROM (WITH recent AS (SELECT id FROM t WHERE a > 1) SELECT id FROM recent) AS d"},
	{name: "reads-recent", sql: "SELECT id FROM recent", expect: ""},
	// a CTE read through a path selector: its body is evaluated while the selector is being walked
	{name: "cte-through-path", sql: "WITH big AS (SELECT id, items FROM t WHERE a > 0) SELECT q FROM `big.items`"},
	// the caller works on its result while other queries read the document the rows came from
	{name: "star-result-edited", sql: "SELECT * FROM t", edit: true},
	{name: "derived-star-result-edited", sql: "SELECT * FROM (SELECT * FROM t WHERE a > 0) d", edit: true},
	// one statement text, two readings: with the dialect option "a" is a column, without it a string
	{name: "dquote-pg", sql: "SELECT \"a\" AS x FROM t", pg: true, expect: `{"x":1};{"x":2}`},
	{name: "dquote-plain", sql: "SELECT \"a\" AS x FROM t", expect: `{"x":"a"};{"x":"a"}`},
	// whole-row duplicates under DISTINCT and UNION next to another query that de-duplicates
	{name: "distinct-rows", sql: "SELECT DISTINCT g, h FROM dd"},
	{name: "union-distinct", sql: "SELECT g FROM dd UNION SELECT g FROM t"},
	// the query's own parallelism only: one copy of the query per inner array, each with ASYNC calls
	// the parent has to await; ASYNC / SPINASYNC calls that read or write the variable store next to
	// the evaluating goroutine's own SETVAR / GETVAR
	{name: "async-nested-from", sql: "SELECT id, ASYNC.HMID(a) AS m FROM m", single: true},
	{name: "async-nested-from-filtered", sql: "SELECT id, ASYNC.HFAST(a) AS f FROM m WHERE HMID(a) > 0", single: true},
	{name: "vars-async-reader", sql: "SELECT id, SETVAR('k', id), SPINASYNC.HPEEK('k'), GETVAR('k') AS g FROM t", single: true},
	{name: "vars-async-writer", sql: "SELECT id, GETVAR('k') AS g0, SPINASYNC.HPOKE('j', id), SETVAR('k', id), GETVAR('k') AS g FROM t", single: true},
	{name: "join-right-derived-async", sql: "SELECT * FROM t x JOIN (SELECT rid, ASYNC.HMID(b) AS v FROM u) y ON x.id = y.rid", single: true, bag: true, expectFn: func() []string {
		d := c13Doc()
		var out []string
		for i, row := range d["t"].([]any) {
			u := d["u"].([]any)[i].(map[string]any)
			out = append(out, gq.Render(map[string]any{"x": row, "y": map[string]any{"rid": u["rid"], "v": u["b"].(float64) + 100}}))
		}
		sort.Strings(out)
		return out
	}},
	{name: "join-left-derived-async", sql: "SELECT * FROM (SELECT rid, ASYNC.HMID(b) AS v FROM u) y JOIN t x ON x.id = y.rid", single: true, bag: true, expectFn: func() []string {
		d := c13Doc()
		var out []string
		for i, row := range d["t"].([]any) {
			u := d["u"].([]any)[i].(map[string]any)
			out = append(out, gq.Render(map[string]any{"x": row, "y": map[string]any{"rid": u["rid"], "v": u["b"].(float64) + 100}}))
		}
		sort.Strings(out)
		return out
	}},
	{name: "async-in-subquery", sql: "SELECT id, (SELECT ASYNC.HMID(q) AS m FROM items) AS s FROM t", single: true},
	// a PARALLEL join whose match fails (panics: the rows of a two-dimensional table are arrays, not
	// objects) for every one of several keys: the failure is reported, nothing is left waiting
	{name: "parallel-join-failing-keys", sql: "SELECT * FROM m3 PARALLEL JOIN u AS r ON id >= r.rid", single: true, mayFail: true, bag: true},
	{name: "parallel-left-hash-join-failing-keys", sql: "SELECT * FROM m3 PARALLEL LEFT HASH_JOIN u AS r ON id = r.rid", single: true, mayFail: true, bag: true},
	// an ASYNC call awaited explicitly: it is started by the deferred evaluation, after the ordinary wait
	{name: "await-async", sql: "SELECT id, AWAIT(ASYNC.HMID(a)) AS m FROM t", single: true, expect: `{"id":0,"m":101};{"id":1,"m":102}`},
	{name: "async-in-cte-twice", sql: "WITH c AS (SELECT id, ASYNC.HFAST(a) AS f FROM t) SELECT id FROM c UNION ALL SELECT id FROM c", single: true},
}

type c13case struct {
	qs     []int
	shared bool // one document for all threads
	warm   bool // selector cache warmed by a sequential run of the same queries
}

type c13 struct {
	tier  string
	cases []c13case
	bound int
}

func init() { core.Register("C13", func() core.Prop { return &c13{} }) }

func (p *c13) ID() string { return "C13" }

func (p *c13) Init(tier string) {
	p.tier = tier
	p.bound = 2
	// single-query harnesses (internal parallelism only)
	for q := range c13Queries {
		p.cases = append(p.cases, c13case{qs: []int{q}})
	}
	for a := range c13Queries {
		for b := a; b < len(c13Queries); b++ {
			if c13Queries[a].single || c13Queries[b].single {
				continue
			}
			for _, shared := range []bool{false, true} {
				for _, warm := range []bool{false, true} {
					if warm && a != b && tier == "quick" {
						continue // a warm cache has no writers: only self-pairs in the quick tier
					}
					heavy := func(q int) bool {
						n := c13Queries[q].name
						return strings.HasPrefix(n, "parallel") || n == "async" || n == "spinasync"
					}
					if tier == "quick" && heavy(a) && heavy(b) {
						continue // two queries that both spawn goroutines: thorough tier only (the free switches at thread exits multiply)
					}
					p.cases = append(p.cases, c13case{qs: []int{a, b}, shared: shared, warm: warm})
				}
			}
		}
	}
	if tier == "thorough" {
		p.bound = 3
		small := []int{0, 1, 2, 3, 9, 10, 13}
		for _, a := range small {
			for _, b := range small {
				for _, c := range small {
					if a <= b && b <= c {
						p.cases = append(p.cases, c13case{qs: []int{a, b, c}, shared: false}, c13case{qs: []int{a, b, c}, shared: true})
					}
				}
			}
		}
	}
}

func (p *c13) NumCases() int { return len(p.cases) }

func c13Doc() map[string]any {
	return map[string]any{
		"t": []any{
			map[string]any{"id": 0.0, "a": 1.0, "g": "x", "o": map[string]any{"p": 1.0, "p0": 1.0, "p1": 2.0, "p2": 3.0}, "items": []any{map[string]any{"q": 1.0}}},
			map[string]any{"id": 1.0, "a": 2.0, "g": "y", "o": map[string]any{"p": 2.0, "p0": 1.0, "p1": 2.0, "p2": 3.0}, "items": []any{}},
		},
		"u": []any{
			map[string]any{"rid": 0.0, "b": 2.0, "g": "x"},
			map[string]any{"rid": 1.0, "b": 3.0, "g": "y"},
		},
		"m3": []any{
			[]any{map[string]any{"id": 0.0, "a": 1.0}},
			[]any{map[string]any{"id": 1.0, "a": 2.0}},
			[]any{map[string]any{"id": 2.0, "a": 3.0}},
		},
		// duplicates in every column and as whole rows (DISTINCT, UNION)
		"dd": []any{
			map[string]any{"g": "x", "h": 1.0}, map[string]any{"g": "x", "h": 1.0}, map[string]any{"g": "y", "h": 1.0}, map[string]any{"g": "x", "h": 1.0},
		},
		"m": []any{
			[]any{map[string]any{"id": 0.0, "a": 1.0}},
			[]any{map[string]any{"id": 1.0, "a": 2.0}, map[string]any{"id": 2.0, "a": 3.0}},
		},
	}
}

func (p *c13) sqlOf(c *c13case, k int) string {
	s := c13Queries[c.qs[k]].sql
	n := strings.Count(s, "%d")
	args := make([]any, n)
	for i := range args {
		args[i] = k
	}
	return fmt.Sprintf(s, args...)
}

func (p *c13) Describe(i int) any {
	c := &p.cases[i]
	var qs []string
	for k := range c.qs {
		qs = append(qs, p.sqlOf(c, k))
	}
	return map[string]any{"threads": qs, "shared_document": c.shared, "warm_selector_cache": c.warm, "schedules": fmt.Sprintf("all interleavings with <= %d preemptions (single-query harnesses: %d), race detector on every one", p.bound-1, p.bound)}
}

func (p *c13) sig(c *c13case, mode string) string {
	var names []string
	for _, q := range c.qs {
		names = append(names, c13Queries[q].name)
	}
	doc := "separate"
	if c.shared {
		doc = "shared"
	}
	if len(c.qs) == 1 {
		doc = "single"
	}
	return fmt.Sprintf("C13|%s|%s|%s", strings.Join(names, "+"), doc, mode)
}

func (p *c13) RunCase(i int) *core.CaseResult {
	r := &core.CaseResult{}
	c := &p.cases[i]
	n := len(c.qs)
	sqls := make([]string, n)
	for k := range sqls {
		sqls[k] = p.sqlOf(c, k)
	}
	optsFor := func(k int) []genql.QueryOption {
		if c13Queries[c.qs[k]].noopts {
			return nil
		}
		if c13Queries[c.qs[k]].pg {
			return []genql.QueryOption{genql.WithVars(map[string]any{}), genql.PostgresEscapingDialect()}
		}
		return []genql.QueryOption{genql.WithVars(map[string]any{})}
	}
	raceSeen := map[string]bool{}
	raceBase := racemon.Errors()
	// drainRaces reports every race the detector printed since the last call (whatever part of
	// the case ran in between: solo run, warm-up or an explored schedule)
	drainRaces := func(what string, prefix []int32) {
		if racemon.Errors() == raceBase {
			return
		}
		raceBase = racemon.Errors()
		for _, rep := range racemon.Drain() {
			if raceSeen[rep.Sig] {
				continue
			}
			raceSeen[rep.Sig] = true
			r.Fail("C13|"+rep.Sig, fmt.Sprintf("%v (shared document: %v, warm cache: %v) %s %v: %s", sqls, c.shared, c.warm, what, prefix, rep.Text),
				map[string]any{"threads": sqls, "shared_document": c.shared, "warm_selector_cache": c.warm, "choices": append([]int32{}, prefix...), "report": rep.Text})
		}
	}
	// solo results (sequential, outside the exploration)
	solo := make([][]string, n)
	for k := range sqls {
		genql.VerifResetSelectorCache()
		o := gq.Run(c13Doc(), sqls[k], optsFor(k)...)
		drainRaces("solo run of thread "+fmt.Sprint(k), nil)
		r.Execs++
		if (o.Failed() || o.GPanic != "") && !(c13Queries[c.qs[k]].mayFail && o.Panic == "" && o.GPanic == "") {
			r.Fail(p.sig(c, "solo-"+o.Status()), fmt.Sprintf("%s alone: %s %v %s %s", sqls[k], o.Status(), o.Err, o.Panic, o.GPanic), map[string]any{"sql": sqls[k]})
			return r
		}
		solo[k] = gq.RenderRows(o.Rows)
		if o.Err != nil {
			solo[k] = []string{"error"}
		}
		if c13Queries[c.qs[k]].bag {
			sort.Strings(solo[k])
		}
		if f := c13Queries[c.qs[k]].expectFn; f != nil && !gq.SameSeq(solo[k], f()) {
			r.Fail(p.sig(c, "solo-wrong"), fmt.Sprintf("%s alone returned %v, want %v", sqls[k], solo[k], f()), map[string]any{"sql": sqls[k]})
			return r
		}
		if e := c13Queries[c.qs[k]].expect; e != "" && strings.Join(solo[k], ";") != e {
			r.Fail(p.sig(c, "solo-wrong"), fmt.Sprintf("%s alone (after the solo runs of the threads before it) returned %v, want %s", sqls[k], solo[k], e), map[string]any{"sql": sqls[k]})
			return r
		}
	}
	outs := make([]*gq.Out, n)
	before := make([][]any, n)
	cfg := vrt.Config{Sched: true}
	outcomes := map[string]bool{}
	run := func(prefix []int32) *vrt.Result {
		docs := make([]map[string]any, n)
		shared := c13Doc()
		for k := range docs {
			if c.shared {
				docs[k] = shared
			} else {
				docs[k] = c13Doc()
			}
		}
		genql.VerifResetSelectorCache()
		if c.warm {
			for k := range sqls {
				gq.Run(c13Doc(), sqls[k], optsFor(k)...)
			}
		}
		for k := range outs {
			outs[k] = &gq.Out{}
			before[k] = nil
		}
		optss := make([][]genql.QueryOption, n)
		for k := range optss {
			optss[k] = optsFor(k)
		}
		res := vrt.Run(cfg, prefix, func() {
			if n == 1 {
				gq.Call(outs[0], docs[0], sqls[0], optss[0]...)
				return
			}
			for k := 0; k < n; k++ {
				k := k
				vrt.Go(func() {
					gq.Call(outs[k], docs[k], sqls[k], optss[k]...)
					if c13Queries[c.qs[k]].edit && outs[k].Err == nil && outs[k].Panic == "" {
						before[k] = gq.Clone(outs[k].Rows).([]any)
						for _, row := range outs[k].Rows {
							if m, ok := row.(map[string]any); ok {
								m["id"] = "edited"
								m["\x00added"] = float64(k)
							}
						}
					}
				})
			}
		})
		return res
	}
	check := func(prefix []int32, res *vrt.Result) bool {
		cs := map[string]any{"threads": sqls, "shared_document": c.shared, "warm_selector_cache": c.warm, "choices": prefix}
		ok := true
		if res.GPanic != "" {
			r.Fail(p.sig(c, "goroutine-panic"), fmt.Sprintf("%v schedule %v: a library goroutine panicked: %s", sqls, prefix, res.GPanic), cs)
			ok = false
		}
		var oc []string
		for k, o := range outs {
			if o.Failed() && !(o.Err != nil && o.Panic == "" && len(solo[k]) == 1 && solo[k][0] == "error") {
				r.Fail(p.sig(c, o.Status()), fmt.Sprintf("%v schedule %v: thread %d ended with %s: %v %s (alone it succeeds)", sqls, prefix, k, o.Status(), o.Err, o.Panic), cs)
				ok = false
				continue
			}
			got := gq.RenderRows(o.Rows)
			if before[k] != nil {
				got = gq.RenderRows(before[k]) // as returned, before the thread edited its rows
			}
			if o.Err != nil {
				got = []string{"error"}
			}
			if c13Queries[c.qs[k]].bag {
				sort.Strings(got)
			}
			oc = append(oc, strings.Join(got, ";"))
			if !gq.SameSeq(got, solo[k]) {
				r.Fail(p.sig(c, "cross-talk"), fmt.Sprintf("%v schedule %v: thread %d returned %v, alone it returns %v", sqls, prefix, k, got, solo[k]), cs)
				ok = false
			}
		}
		outcomes[strings.Join(oc, " || ")] = true
		return ok
	}
	e := newExplorer(func(prefix []int32) *vrt.Result {
		res := run(prefix)
		drainRaces("schedule", prefix)
		return res
	}, check, map[bool]int64{true: 150000, false: 400000}[p.tier == "thorough"])
	// pairs/triples: one preemption less than single-query harnesses (a preemption right after an
	// access x of one thread, followed by the whole other thread, already exposes every race on x:
	// no release follows x before the other thread's accesses)
	bound := p.bound
	if n > 1 {
		bound = p.bound - 1
	}
	if p.tier == "thorough" {
		// keep the thorough tier inside its deadline: the bound is lowered by one for harnesses in
		// which a query spawns goroutines of its own (free switches at thread exits multiply the
		// space) and for triples
		heavy := 0
		for _, q := range c.qs {
			if nm := c13Queries[q].name; strings.HasPrefix(nm, "parallel") || nm == "async" || nm == "spinasync" {
				heavy++
			}
		}
		if n > 1 && heavy > 0 || n > 2 {
			bound = 1
		}
	}
	e.Explore(bound)
	st := &e.Stats
	r.Execs += st.Execs
	r.Transitions = st.Transitions
	r.States = int64(len(st.States))
	r.BoundDone = st.BoundDone
	if st.BoundDone < 0 {
		r.BoundDone = bound
	}
	r.Capped = st.Capped
	r.Nontrivial = st.Execs > 1
	r.Count("max_threads", int64(st.MaxThreads))
	r.Count("race_monitor_enabled", map[bool]int64{true: 1, false: 0}[racemon.Enabled])
	for k := range outcomes {
		r.Outcomes = append(r.Outcomes, k)
	}
	return r
}

func (p *c13) Meta() core.Meta {
	return core.Meta{
		Rule: "one case per harness: 1 query alone (internal parallelism), or every unordered pair (thorough: also triples over a 7-query subset) of 26 queries, plus 8 single-only harnesses (ASYNC in a nested FROM with several inner arrays, ASYNC / SPINASYNC readers and writers of the variable store next to SETVAR / GETVAR, ASYNC inside a row-scoped subquery and inside a CTE read twice) (filter, projection, fresh path selector, group-by, joins incl. PARALLEL hash and nested, ASYNC, SPINASYNC, CTE, IN-subquery, EXISTS, ORDER BY+DISTINCT, SETVAR/GETVAR, UNION and JOIN USING with the same text in every thread, GETVAR / SETVAR built without any option, one statement text with and without PostgresEscapingDialect) x {separate documents, one shared document} x {cold selector cache, warm cache}; each case = stateless exploration of every interleaving with <= 2 (thorough 3) preemptions at sync-operation granularity of the real engine under the -race build; oracle per schedule: no new race report, no deadlock / goroutine panic (scheduler), every thread's result equals its solo result. non-trivial = more than one schedule executed; single-query harnesses for PARALLEL joins whose match panics for every one of three keys and for an ASYNC call awaited explicitly; DISTINCT / UNION kinds over whole-row duplicates",
		Assumptions: []string{
			"scheduling points at every Mutex/RWMutex/WaitGroup operation, go statement, thread exit and harness yield; unsynchronised accesses are covered by the happens-before race monitor on each explored schedule (DRF-SC)",
			"the race detector reports each distinct race (stack pair) once per worker process; a report is attributed to the first case of that worker that exhibits it",
			"vars maps and documents are per-thread unless the case says shared",
		},
		Bounds:      map[string]any{"preemption_bound": p.bound, "harnesses": len(p.cases)},
		NeedRace:    true,
		Exhaustive:  true,
		CaseTimeout: 0,
	}
}
