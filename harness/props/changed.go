package props

import (
	"fmt"
	"strings"

	"github.com/vedadiyan/genql"
	"github.com/vedadiyan/genql/vrt"

	"verif/harness/core"
	"verif/harness/gq"
)

// Checks on histories in which the caller changes the environment of a Query between New and Exec or
// between two Execs: values of rows in place, a top-level key, the constants, a registered function.
// The oracle is differential and needs no expected value: the Query built before the change must answer
// what a Query built after the change answers.  All menus are enumerated exhaustively.

// ---- C03: rows changed in place between two executions of one grouped query

func runChangedC03(r *core.CaseResult) {
	r.Nontrivial = true
	sqls := []string{
		"SELECT g, COUNT(*) AS c, SUM(v) AS s, MAX(v) AS hi, MIN(v) AS lo FROM t GROUP BY g",
		"SELECT g, COUNT(*) AS c, SUM(v) AS s FROM t GROUP BY g HAVING SUM(v) > 4",
		"SELECT g, AVG(v) AS m, COUNT(v) AS c FROM t WHERE v > 1 GROUP BY g",
		"SELECT COUNT(*) AS c, SUM(v) AS s, MAX(v) AS hi FROM t",
		"SELECT COUNT(*) AS c, MIN(v) AS lo FROM t WHERE g = 'a'",
		"SELECT g, h, COUNT(*) AS c FROM t GROUP BY g, h",
		"SELECT g, * FROM t GROUP BY g",
	}
	mk := func() []any {
		return []any{
			map[string]any{"g": "a", "h": 1.0, "v": 1.0},
			map[string]any{"g": "b", "h": 1.0, "v": 2.0},
			map[string]any{"g": "a", "h": 2.0, "v": 3.0},
			map[string]any{"g": "b", "h": 1.0, "v": 4.0},
			map[string]any{"g": "a", "h": 1.0, "v": 5.0},
		}
	}
	type edit struct {
		key string
		val any
	}
	edits := []edit{{"g", "a"}, {"g", "b"}, {"g", "c"}, {"g", nil}, {"v", 0.0}, {"v", 30.0}, {"v", nil}, {"h", 2.0}}
	for _, sql := range sqls {
		for row := 0; row < 5; row++ {
			for _, e := range edits {
				rows := mk()
				doc := map[string]any{"t": rows}
				second, fresh, problem := execMutateExec(doc, sql, nil, func() { rows[row].(map[string]any)[e.key] = e.val })
				r.Execs += 3
				cs := map[string]any{"sql": sql, "doc": map[string]any{"t": mk()}, "after-first-exec": fmt.Sprintf("t[%d].%s = %v", row, e.key, e.val)}
				if problem != "" {
					r.Fail("C03|changed-between-execs|problem", problem, cs)
					continue
				}
				if second != fresh {
					r.Fail("C03|changed-between-execs|stale", fmt.Sprintf("%s: after t[%d].%s = %v the same query returned %s, a fresh query returns %s", sql, row, e.key, e.val, second, fresh), cs)
				}
			}
		}
	}
}

// ---- C03: an execution that fails in an aggregate, the caller repairs the row, the same Query again

func runFailedThenRepairedC03(r *core.CaseResult) {
	r.Nontrivial = true
	sqls := []string{
		"SELECT COUNT(*) AS c, SUM(v) AS s FROM t",
		"SELECT COUNT(*) AS c, MAX(h) AS hi, SUM(v) AS s, MIN(h) AS lo FROM t",
		"SELECT SUM(h) AS sh, AVG(v) AS m, COUNT(*) AS c FROM t WHERE h > 0",
		"SELECT g, COUNT(*) AS c, SUM(v) AS s FROM t GROUP BY g",
		"SELECT g, MAX(h) AS hi, AVG(v) AS m FROM t GROUP BY g HAVING COUNT(*) > 0",
	}
	mk := func(poison int) []any {
		rows := []any{
			map[string]any{"g": "a", "h": 1.0, "v": 1.0},
			map[string]any{"g": "b", "h": 2.0, "v": 2.0},
			map[string]any{"g": "a", "h": 3.0, "v": 3.0},
			map[string]any{"g": "b", "h": 4.0, "v": 4.0},
		}
		rows[poison].(map[string]any)["v"] = "n/a"
		return rows
	}
	type repair struct {
		name string
		do   func(rows []any, k int)
	}
	repairs := []repair{
		{"v = 7", func(rows []any, k int) { rows[k].(map[string]any)["v"] = 7.0 }},
		{"v = 7, h = 0", func(rows []any, k int) { m := rows[k].(map[string]any); m["v"] = 7.0; m["h"] = 0.0 }},
		{"v = 7 and the next row's h = 9", func(rows []any, k int) {
			rows[k].(map[string]any)["v"] = 7.0
			rows[(k+1)%len(rows)].(map[string]any)["h"] = 9.0
		}},
		{"v = NULL", func(rows []any, k int) { rows[k].(map[string]any)["v"] = nil }},
	}
	failed := 0
	for _, sql := range sqls {
		for k := 0; k < 4; k++ {
			for _, rp := range repairs {
				rows := mk(k)
				doc := map[string]any{"t": rows}
				second, fresh, problem, firstFailed := execMutateExecF(doc, sql, nil, func() { rp.do(rows, k) }, true)
				r.Execs += 3
				if firstFailed {
					failed++
				}
				cs := map[string]any{"sql": sql, "doc": map[string]any{"t": mk(k)}, "after-first-exec": fmt.Sprintf("t[%d]: %s", k, rp.name)}
				if problem != "" {
					// a query that still fails after the repair fails for the fresh Query as well: not this case's matter
					continue
				}
				if second != fresh {
					r.Fail("C03|failed-then-repaired|stale", fmt.Sprintf("%s: the first execution met v = \"n/a\" in t[%d]; after the repair (%s) the same query returned %s, a fresh query returns %s", sql, k, rp.name, second, fresh), cs)
				}
			}
		}
	}
	r.Outcomes = append(r.Outcomes, fmt.Sprintf("first-execution-failed=%d", failed))
}

// ---- C05: rows changed in place between two executions of one query with a window

func runChangedC05(r *core.CaseResult) {
	r.Nontrivial = true
	sqls := []string{
		"SELECT id FROM t WHERE a > 1",
		"SELECT id, a FROM t WHERE a > 1 ORDER BY a DESC",
		"SELECT id, a FROM t ORDER BY a",
		"SELECT id, a FROM t WHERE a > 1 ORDER BY a LIMIT 2 OFFSET 1",
		"SELECT id FROM t WHERE a > 1 LIMIT 10",
		"SELECT id FROM t LIMIT 3 OFFSET 1",
		"SELECT id, a FROM t WHERE a > 1 ORDER BY a DESC LIMIT 1, 3",
	}
	mk := func() []any {
		return []any{
			map[string]any{"id": 0.0, "a": 1.0},
			map[string]any{"id": 1.0, "a": 2.0},
			map[string]any{"id": 2.0, "a": 0.0},
			map[string]any{"id": 3.0, "a": 3.0},
			map[string]any{"id": 4.0, "a": -1.0},
		}
	}
	// every single edit, and every pair of edits of two different rows: the result grows, shrinks,
	// changes its order
	vals := []float64{10, -10}
	for _, sql := range sqls {
		for i := 0; i < 5; i++ {
			for j := i; j < 5; j++ {
				for _, vi := range vals {
					for _, vj := range vals {
						if i == j && vi != vj {
							continue
						}
						rows := mk()
						doc := map[string]any{"t": rows}
						second, fresh, problem := execMutateExec(doc, sql, nil, func() {
							rows[i].(map[string]any)["a"] = vi + float64(i)
							rows[j].(map[string]any)["a"] = vj + float64(j)
						})
						r.Execs += 3
						what := fmt.Sprintf("t[%d].a = %v, t[%d].a = %v", i, vi+float64(i), j, vj+float64(j))
						cs := map[string]any{"sql": sql, "doc": map[string]any{"t": mk()}, "after-first-exec": what}
						if problem != "" {
							r.Fail("C05|changed-between-execs|problem", problem, cs)
							continue
						}
						if second != fresh {
							r.Fail("C05|changed-between-execs|stale", fmt.Sprintf("%s: after %s the same query returned %s, a fresh query returns %s", sql, what, second, fresh), cs)
						}
					}
				}
			}
		}
	}
}

// ---- C08: the nested source changed between two executions of one query

func runChangedC08(r *core.CaseResult) {
	r.Nontrivial = true
	sqls := []string{
		"SELECT id, a FROM m",
		"SELECT id FROM m WHERE a > 1",
		"SELECT a + 1 AS b FROM m WHERE a > 0",
		"SELECT id FROM m ORDER BY a DESC",
		"SELECT id, a FROM m LIMIT 1",
	}
	// (a `mix=>m` source is not in the menu: a selector function in FROM is evaluated once, by New,
	// like a derived table - the Query ranges over the array it produced then)
	row := func(id, a float64) any { return map[string]any{"id": id, "a": a} }
	mks := []func() []any{
		func() []any { return []any{[]any{row(0, 1), row(1, 2)}, []any{row(2, 3)}, []any{row(3, 0), row(4, 5)}} },
		func() []any { return []any{[]any{row(0, 2)}, []any{}, []any{row(1, 1), row(2, 4), row(3, 3)}} },
		// three dimensions
		func() []any {
			return []any{[]any{[]any{row(0, 1), row(1, 2)}, []any{row(2, 3)}}, []any{[]any{row(3, 4)}}}
		},
	}
	type change struct {
		name string
		do   func(m []any)
	}
	inner := func(m []any, i int) []any { return m[i%len(m)].([]any) }
	changes := []change{
		{"m[0] = another array", func(m []any) { m[0] = []any{row(10, 7), row(11, 0), row(12, 9)} }},
		{"m[last] = another array", func(m []any) { m[len(m)-1] = []any{row(20, 8)} }},
		{"m[1] = empty array", func(m []any) { m[1%len(m)] = []any{} }},
		{"m[0], m[last] swapped", func(m []any) { m[0], m[len(m)-1] = m[len(m)-1], m[0] }},
		{"a row of m[0] edited in place", func(m []any) {
			in := inner(m, 0)
			if sub, ok := in[0].([]any); ok {
				in = sub
			}
			in[0].(map[string]any)["a"] = 11.0
		}},
		{"m[0][0] replaced", func(m []any) {
			in := inner(m, 0)
			if _, ok := in[0].([]any); ok {
				in[0] = []any{row(30, 6), row(31, 2)}
			} else {
				in[0] = row(30, 6)
			}
		}},
		{"m[0][last] replaced", func(m []any) {
			in := inner(m, 0)
			if _, ok := in[len(in)-1].([]any); ok {
				in[len(in)-1] = []any{row(40, 3)}
			} else {
				in[len(in)-1] = row(40, 3)
			}
		}},
		{"every inner array replaced by a longer one", func(m []any) {
			for i := range m {
				if in := m[i].([]any); len(in) > 0 {
					if _, ok := in[0].([]any); ok {
						m[i] = append([]any{[]any{row(50+float64(i), 4)}}, in...)
						continue
					}
				}
				m[i] = append([]any{row(50+float64(i), 4)}, m[i].([]any)...)
			}
		}},
		{"every inner array emptied", func(m []any) {
			for i := range m {
				m[i] = []any{}
			}
		}},
	}
	for _, sql := range sqls {
		for di, mk := range mks {
			for _, ch := range changes {
				m := mk()
				doc := map[string]any{"m": m}
				second, fresh, problem := execMutateExec(doc, sql, nil, func() { ch.do(m) })
				r.Execs += 3
				cs := map[string]any{"sql": sql, "doc": map[string]any{"m": mk()}, "after-first-exec": ch.name}
				if problem != "" {
					if strings.HasPrefix(problem, "fresh ") || strings.HasPrefix(problem, "first ") || strings.HasPrefix(problem, "New") {
						continue // the statement does not apply to this document at all
					}
					r.Fail("C08|changed-between-execs|problem", fmt.Sprintf("%s on document %d after %s: %s", sql, di, ch.name, problem), cs)
					continue
				}
				if second != fresh {
					r.Fail("C08|changed-between-execs|stale", fmt.Sprintf("%s on document %d: after %s the same query returned %s, a fresh query returns %s", sql, di, ch.name, second, fresh), cs)
				}
			}
		}
	}
}

// ---- C15: the comparison is a function of its two values, whatever was compared before

func runChangedC15(r *core.CaseResult) {
	r.Nontrivial = true
	dom := []any{9.0, 10.0, 100.0, "x9", "x10", "10", "5"}
	sqls := []string{"SELECT id, v FROM t ORDER BY v", "SELECT id, v FROM t ORDER BY v DESC, id", "SELECT id FROM t WHERE v < 50", "SELECT id FROM t WHERE v IN (10, '5')"}
	n := len(dom)
	for _, sql := range sqls {
		for a := 0; a < n*n; a++ { // the two values before
			for b := 0; b < n*n; b++ { // the two values after
				if a == b {
					continue
				}
				r0 := map[string]any{"id": 1.0, "v": dom[a/n]}
				r1 := map[string]any{"id": 2.0, "v": dom[a%n]}
				doc := map[string]any{"t": []any{r0, r1}}
				second, fresh, problem := execMutateExec(doc, sql, nil, func() { r0["v"], r1["v"] = dom[b/n], dom[b%n] })
				r.Execs += 3
				cs := map[string]any{"sql": sql, "before": []any{dom[a/n], dom[a%n]}, "after": []any{dom[b/n], dom[b%n]}}
				if problem != "" {
					r.Fail("C15|changed-between-execs|problem", problem, cs)
					continue
				}
				if second != fresh {
					r.Fail("C15|changed-between-execs|stale", fmt.Sprintf("%s: v changed from %v to %v between two executions of one query: it returned %s, a fresh query returns %s", sql, cs["before"], cs["after"], second, fresh), cs)
				}
			}
		}
	}
}

// ---- C17: Wrapped() against {"root": input} when the input changes after New

func runChangedC17(r *core.CaseResult) {
	r.Nontrivial = true
	sqls := []string{
		"SELECT root.k AS k FROM dual",
		"SELECT root.k + 1 AS k, root.late AS late FROM dual",
		"SELECT a, (SELECT `<-root.k` AS k FROM dual) AS k FROM root.t",
		"SELECT a FROM root.t WHERE a >= (SELECT `<-root.k` AS k FROM dual)",
		"SELECT a FROM root.t",
		"SELECT COUNT(*) AS c FROM root.t",
		"SELECT * FROM root.late",
	}
	type step struct {
		name string
		do   func(in map[string]any)
	}
	steps := []step{
		{"k = 2", func(in map[string]any) { in["k"] = 2.0 }},
		{"late = [{a:9}]", func(in map[string]any) { in["late"] = []any{map[string]any{"a": 9.0}} }},
		{"t[0].a = 5", func(in map[string]any) { in["t"].([]any)[0].(map[string]any)["a"] = 5.0 }},
		{"t = [{a:7}]", func(in map[string]any) { in["t"] = []any{map[string]any{"a": 7.0}} }},
		{"delete k", func(in map[string]any) { delete(in, "k") }},
	}
	mk := func() map[string]any {
		return map[string]any{"k": 1.0, "t": []any{map[string]any{"a": 1.0}, map[string]any{"a": 2.0}, map[string]any{"a": 3.0}}}
	}
	outcome := func(q *genql.Query) (s string) {
		defer func() {
			if rec := recover(); rec != nil {
				s = fmt.Sprint("panic: ", rec)
			}
		}()
		rows, err := q.Exec()
		if err != nil {
			return "error"
		}
		return gq.Render(rows)
	}
	for _, sql := range sqls {
		// every sequence of two steps: the first between New and Exec, the second between two Execs
		for s1 := range steps {
			for s2 := range steps {
				var log []string
				var bad string
				vrt.Run(gq.Seq, nil, func() {
					inW, inE := mk(), mk()
					w, errW := genql.New(inW, sql, genql.Wrapped())
					e, errE := genql.New(map[string]any{"root": inE}, sql)
					if (errW == nil) != (errE == nil) {
						bad = fmt.Sprintf("New: Wrapped() error %v, {root: input} error %v", errW, errE)
						return
					}
					if errW != nil {
						return
					}
					for _, s := range []int{s1, s2} {
						steps[s].do(inW)
						steps[s].do(inE)
						a, b := outcome(w), outcome(e)
						log = append(log, steps[s].name)
						if a != b {
							bad = fmt.Sprintf("after %s: Wrapped() gives %s, {root: input} gives %s", strings.Join(log, "; "), a, b)
							return
						}
					}
				})
				r.Execs += 4
				if bad != "" {
					r.Fail("C17|wrapped|input-changed-after-new", sql+": "+bad, map[string]any{"sql": sql, "input": mk(), "steps": []string{steps[s1].name, steps[s2].name}})
				}
			}
		}
	}
}

// ---- C18: CONSTANT(k) returns the constant configured at the time of the call

func runChangedC18(r *core.CaseResult) {
	r.Nontrivial = true
	type step struct {
		name string
		do   func(m map[string]any)
	}
	steps := []step{
		{"k = b", func(m map[string]any) { m["k"] = "b" }},
		{"k = 7", func(m map[string]any) { m["k"] = 7.0 }},
		{"late = x", func(m map[string]any) { m["late"] = "x" }},
		{"delete k", func(m map[string]any) { delete(m, "k") }},
		{"k = [1]", func(m map[string]any) { m["k"] = []any{1.0} }},
	}
	sqls := []string{
		"SELECT CONSTANT('k') AS v FROM dual",
		"SELECT CONSTANT('late') AS v FROM dual",
		"SELECT id, CONSTANT('k') AS v FROM t",
		"SELECT id FROM t WHERE CONSTANT('k') = 'b'",
		"SELECT (SELECT CONSTANT('k') AS x FROM dual) AS v FROM dual",
	}
	outcome := func(q *genql.Query) (s string) {
		defer func() {
			if rec := recover(); rec != nil {
				s = fmt.Sprint("panic: ", rec)
			}
		}()
		rows, err := q.Exec()
		if err != nil {
			return "error"
		}
		return gq.Render(rows)
	}
	for _, sql := range sqls {
		for s1 := range steps {
			for s2 := range steps {
				var bad string
				vrt.Run(gq.Seq, nil, func() {
					consts := map[string]any{"k": "a"}
					doc := func() map[string]any {
						return map[string]any{"t": []any{map[string]any{"id": 1.0}, map[string]any{"id": 2.0}}}
					}
					opt := genql.WithConstants(consts)
					q, err := genql.New(doc(), sql, opt)
					if err != nil {
						bad = "New: " + err.Error()
						return
					}
					var log []string
					for _, s := range []int{s1, s2} {
						steps[s].do(consts)
						log = append(log, steps[s].name)
						got := outcome(q)
						// reference: a query built now, with a copy of the constants as they are now
						now := map[string]any{}
						for k, v := range consts {
							now[k] = v
						}
						f, err := genql.New(doc(), sql, genql.WithConstants(now))
						want := "error"
						if err == nil {
							want = outcome(f)
						}
						if got != want {
							bad = fmt.Sprintf("after %s: the query built before returns %s, a query built with these constants returns %s", strings.Join(log, "; "), got, want)
							return
						}
						// the same option value given to a second query
						g, err := genql.New(doc(), sql, opt)
						got2 := "error"
						if err == nil {
							got2 = outcome(g)
						}
						if got2 != want {
							bad = fmt.Sprintf("after %s: a second query given the same option value returns %s, want %s", strings.Join(log, "; "), got2, want)
							return
						}
					}
				})
				r.Execs += 6
				if bad != "" {
					r.Fail("C18|CONSTANT|constants-changed-after-new", sql+": "+bad, map[string]any{"sql": sql, "constants": map[string]any{"k": "a"}, "steps": []string{steps[s1].name, steps[s2].name}})
				}
			}
		}
	}
}

// ---- C12: a function registered again between two evaluations

func runChangedC12(r *core.CaseResult) {
	r.Nontrivial = true
	// (no derived table and no CTE in the menu: a derived table is evaluated once, by New, and a CTE
	// once per Query, at its first use, so a Query built before the registration legitimately keeps
	// the rows computed with the earlier function)
	sqls := []string{
		"SELECT a, HCHG(n) AS tag FROM t",
		"SELECT a, (SELECT HCHG(n) AS x FROM dual) AS sub FROM t",
		"SELECT a FROM t WHERE HCHG(n) = 'v2:q'",
		"SELECT HCHG(n) AS tag, COUNT(*) AS c FROM t GROUP BY HCHG(n)",
		"SELECT a FROM t ORDER BY HCHG(n) DESC",
	}
	tagger := func(version string) func([]any) (any, error) {
		return func(args []any) (any, error) {
			if len(args) == 0 {
				return version, nil
			}
			return fmt.Sprintf("%s:%v", version, args[0]), nil
		}
	}
	registrars := []struct {
		name string
		do   func(version string)
	}{
		{"RegisterExternalFunction", func(v string) { genql.RegisterExternalFunction("hchg", tagger(v)) }},
		{"Import", func(v string) {
			genql.Import(map[string]func([]any) (any, error){"hchg": tagger(v)})
		}},
		{"RegisterFunction", func(v string) {
			f := tagger(v)
			genql.RegisterFunction("hchg", func(_ *genql.Query, _ genql.Map, _ *genql.FunctionOptions, args []any) (any, error) {
				return f(args)
			})
		}},
	}
	mk := func() map[string]any {
		return map[string]any{"t": []any{
			map[string]any{"a": 1.0, "n": "p"}, map[string]any{"a": 2.0, "n": "q"}, map[string]any{"a": 3.0, "n": "r"},
		}}
	}
	render := func(q *genql.Query, err error) (s string) {
		defer func() {
			if rec := recover(); rec != nil {
				s = fmt.Sprint("panic: ", rec)
			}
		}()
		if err != nil {
			return "error: " + err.Error()
		}
		rows, err := q.Exec()
		if err != nil {
			return "error: " + err.Error()
		}
		return gq.Render(rows)
	}
	for _, sql := range sqls {
		for r1 := range registrars {
			for r2 := range registrars {
				var bad, kind string
				vrt.Run(gq.Seq, nil, func() {
					stmt, err := genql.Parse(sql)
					if err != nil {
						bad, kind = "Parse: "+err.Error(), "problem"
						return
					}
					// one options value shared by two Prepare calls
					registrars[r1].do("v1")
					shared := &genql.Options{}
					render(genql.Prepare(mk(), stmt, shared))
					registrars[r2].do("v2")
					after := render(genql.Prepare(mk(), stmt, shared))
					want := render(genql.Prepare(mk(), stmt, &genql.Options{}))
					if after != want {
						bad, kind = fmt.Sprintf("options value shared by two queries: the second returned %s, with an options value of its own %s", after, want), "shared-options"
						return
					}
					// one Query executed twice
					registrars[r1].do("v1")
					doc := mk()
					q, err := genql.New(doc, sql)
					render(q, err)
					registrars[r2].do("v2")
					after = render(q, err)
					want = render(genql.New(doc, sql))
					if after != want {
						bad, kind = fmt.Sprintf("one query executed twice: the second execution returned %s, a fresh query returns %s", after, want), "same-query"
					}
				})
				r.Execs += 6
				if bad != "" {
					r.Fail("C12|function-registered-again|"+kind, sql+": "+bad, map[string]any{"sql": sql, "doc": mk(), "first-registration": registrars[r1].name, "second-registration": registrars[r2].name})
				}
			}
		}
	}
}

// ---- C12: a Query whose rows carry deferred items, executed again after an execution that failed

// runReexecC12: the first execution of a Query fails at row k of the outermost statement (fault point
// FAULT(id), every k); the second execution of the same Query must return plain data only, and what a
// fresh Query returns.  The deferred items sit in the statement itself, in a derived table (built by
// New), a CTE, a join operand and below a multi-dimensional FROM.
func runReexecC12(r *core.CaseResult) {
	r.Nontrivial = true
	sqls := []string{
		"SELECT id, ASYNC.HMID(a) AS s, FAULT(id) AS x FROM t",
		"SELECT id, AWAIT(a) AS s, FAULT(id) AS x FROM t",
		"SELECT *, FAULT(id) AS x FROM (SELECT id, ASYNC.HMID(a) AS s FROM t) d",
		"SELECT d, FAULT(`d.id`) AS x FROM (SELECT id, ASYNC.HMID(a) AS s FROM t) d",
		"SELECT *, FAULT(id) AS x FROM (SELECT id, AWAIT(a) AS s FROM t) d",
		"SELECT *, FAULT(id) AS x FROM (SELECT id, AWAIT(SETVAR('k', a)) AS s FROM t) d",
		"WITH c AS (SELECT id, ASYNC.HMID(a) AS s FROM t) SELECT *, FAULT(id) AS x FROM c",
		"SELECT *, FAULT(x.id) AS f FROM t x JOIN (SELECT id AS rid, ASYNC.HMID(a) AS v FROM t) y ON x.id = y.rid",
		"SELECT id, ASYNC.HMID(a) AS s, FAULT(id) AS x FROM m",
		"SELECT id, (SELECT ASYNC.HMID(q) AS v FROM items) AS s, FAULT(id) AS x FROM t",
	}
	mk := func() map[string]any {
		t := []any{}
		m := []any{}
		for j := 0; j < 3; j++ {
			row := map[string]any{"id": float64(j), "a": float64(10 + j), "items": []any{map[string]any{"q": float64(j)}}}
			t = append(t, row)
			m = append(m, []any{gq.Clone(row)})
		}
		return map[string]any{"t": t, "m": m}
	}
	for _, sql := range sqls {
		// invocations of the fault point in a fault-free run
		resetFaults(0)
		base := gq.Run(mk(), sql, genql.WithVars(map[string]any{}), genql.UnReportedErrors(func(error) {}))
		n := faultCount
		r.Execs++
		if base.Failed() || n == 0 {
			r.Fail("C12|re-exec-after-failure|fault-free-run", fmt.Sprintf("%s: fault-free run %s %v %s (%d fault points)", sql, base.Status(), base.Err, base.Panic, n), map[string]any{"sql": sql, "doc": mk()})
			continue
		}
		want := gq.RenderRows(base.Rows)
		for k := 1; k <= n; k++ {
			var first, second gq.Out
			doc := mk()
			vrt.Run(gq.Seq, nil, func() {
				defer func() {
					if rec := recover(); rec != nil {
						second.Panic = fmt.Sprint(rec)
					}
				}()
				resetFaults(k)
				q, err := genql.New(doc, sql, genql.WithVars(map[string]any{}), genql.UnReportedErrors(func(error) {}))
				if err != nil {
					first.Err, first.InNew = err, true
					return
				}
				first.Rows, first.Err = q.Exec()
				resetFaults(0)
				second.Rows, second.Err = q.Exec()
			})
			r.Execs += 2
			cs := map[string]any{"sql": sql, "doc": mk(), "fault-at": k}
			if first.InNew || first.Err == nil {
				// the k-th invocation happens while New builds a nested source (or never): not this case's history
				continue
			}
			what := fmt.Sprintf("%s: the first execution failed at fault point %d of %d; the same Query executed again", sql, k, n)
			if second.Panic != "" || second.Err != nil {
				r.Fail("C12|re-exec-after-failure|fails", fmt.Sprintf("%s ended with %v %s", what, second.Err, second.Panic), cs)
				continue
			}
			if s := gq.Plain(second.Rows); s != "" {
				r.Fail("C12|re-exec-after-failure|not-plain-data", fmt.Sprintf("%s returned rows that are not plain data: %s: %s", what, s, gq.Render(second.Rows)), cs)
				continue
			}
			got := gq.RenderRows(second.Rows)
			same := gq.SameSeq(got, want)
			if strings.Contains(sql, " JOIN ") {
				same = gq.SameBag(got, want)
			}
			if !same {
				r.Fail("C12|re-exec-after-failure|different-rows", fmt.Sprintf("%s returned %v, a fresh query returns %v", what, got, want), cs)
			}
		}
	}
}

// ---- C14: a Query executed again after an execution that failed part-way

func runChangedC14(r *core.CaseResult, bound int) {
	items := []struct {
		sql, col string
		fn       int64
		mul      float64
	}{
		{"ASYNC.HSLOW(a) AS s", "s", 1, 2},
		{"SPINASYNC.HSLOW(a)", "", 1, 0},
		{"ASYNC.HFAST(a) AS s", "s", 2, 3},
	}
	cfg := vrt.Config{Sched: true, Quiet: true}
	vrt.SetQuiet(genql.VerifSelectorMutex())
	r.BoundDone = bound
	for _, it := range items {
		for rows := 1; rows <= 2; rows++ {
			for k := 1; k <= rows; k++ {
				sql := "SELECT id, " + it.sql + ", FAULT(id) AS x FROM t"
				mk := func() map[string]any {
					t := []any{}
					for j := 0; j < rows; j++ {
						t = append(t, map[string]any{"id": float64(j), "a": float64(10 + j)})
					}
					return map[string]any{"t": t}
				}
				var want []string
				for j := 0; j < rows; j++ {
					row := map[string]any{"id": float64(j), "x": float64(j)}
					if it.col != "" {
						row[it.col] = it.mul * float64(10+j)
					}
					want = append(want, gq.Render(row))
				}
				var first, second *gq.Out
				run := func(prefix []int32) *vrt.Result {
					doc := mk()
					genql.VerifResetSelectorCache()
					first, second = &gq.Out{}, &gq.Out{}
					res := vrt.Run(cfg, prefix, func() {
						resetFaults(k)
						q, err := genql.New(doc, sql, genql.UnReportedErrors(func(error) {}))
						if err != nil {
							first.Err, first.InNew = err, true
							return
						}
						func() {
							defer func() {
								if rec := recover(); rec != nil {
									first.Panic = fmt.Sprint(rec)
								}
							}()
							first.Rows, first.Err = q.Exec()
						}()
						resetFaults(0)
						func() {
							defer func() {
								if rec := recover(); rec != nil {
									second.Panic = fmt.Sprint(rec)
								}
							}()
							second.Rows, second.Err = q.Exec()
						}()
						vrt.Log(evRet, 0, 0)
					})
					second.GPanic = res.GPanic
					return res
				}
				failed := false
				check := func(prefix []int32, res *vrt.Result) bool {
					cs := map[string]any{"sql": sql, "doc": mk(), "fault-at": k, "choices": prefix}
					fail := func(mode, msg string) bool {
						failed = true
						r.Fail("C14|re-execution-after-failure|"+strings.SplitN(it.sql, "(", 2)[0]+"|"+mode, fmt.Sprintf("%s on %d rows, first execution failing at row %d, schedule %v: %s", sql, rows, k-1, prefix, msg), cs)
						return false
					}
					if first.Err == nil || first.InNew || first.Panic != "" {
						return fail("first", fmt.Sprintf("the first execution was to fail in Exec: err=%v panic=%s", first.Err, first.Panic))
					}
					if second.Failed() || second.GPanic != "" {
						return fail(second.Status(), fmt.Sprintf("the second execution ended with %s: %v %s %s", second.Status(), second.Err, second.Panic, second.GPanic))
					}
					starts := map[int64]int{}
					for _, e := range res.Events {
						if e.Tag == evStart && e.A == it.fn {
							starts[e.B]++
						}
					}
					for j := 0; j < rows; j++ {
						// the failed execution had already issued the calls of rows 0..k-1: whether those
						// still run is not the property's matter, the second execution's own call is
						lo, hi := 1, 1
						if j < k {
							hi = 2
						}
						if n := starts[int64(10+j)]; n < lo || n > hi {
							return fail("invocations", fmt.Sprintf("the function was invoked %d times for row %d over both executions, want %d..%d (once by the second execution)", n, j, lo, hi))
						}
					}
					if got := gq.RenderRows(second.Rows); !gq.SameSeq(got, want) {
						return fail("rows", fmt.Sprintf("the second execution returned %v, want %v", got, want))
					}
					return true
				}
				e := newExplorer(run, check, 200000)
				e.Explore(bound)
				r.Execs += e.Stats.Execs
				r.Transitions += e.Stats.Transitions
				r.States += int64(len(e.Stats.States))
				if e.Stats.Capped {
					r.Capped = true
				}
				if e.Stats.Execs > 1 && !failed {
					r.Nontrivial = true
				}
			}
		}
	}
}
