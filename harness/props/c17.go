package props

import (
	"fmt"
	"strings"

	"github.com/vedadiyan/genql"
	"verif/harness/core"
	"verif/harness/gq"
)

// C17: dialect options rewrite only syntax.
//   A. PostgresEscapingDialect: "ident" == `ident`; contents of '...' and `...` untouched.
//   B. IdiomaticArrays: [e1, ...] == ARRAY(e1, ...), nested; brackets inside '...' and `...` left alone.
//   C. Wrapped(): input addressable under root exactly as {"root": input}.
// Oracle: pairs of implementation executions (option + alternative spelling vs canonical spelling)
// must agree - same rows, or both fail - plus direct echo checks where the expected value is known.

type c17case struct {
	kind string // "ident" | "literal" | "btident" | "array" | "array-quoted" | "wrapped"
	idx  int
}

type c17 struct {
	tier    string
	cases   []c17case
	idents  []string
	lits    []string
	arrays  []string // array expressions in bracket syntax
	queries []string // for Wrapped
}

func init() { core.Register("C17", func() core.Prop { return &c17{} }) }

func (p *c17) ID() string { return "C17" }

func allStrings(alpha []string, maxLen int) []string {
	out := []string{}
	var rec func(s string, n int)
	rec = func(s string, n int) {
		if n > 0 {
			out = append(out, s)
		}
		if n == maxLen {
			return
		}
		for _, c := range alpha {
			rec(s+c, n+1)
		}
	}
	rec("", 0)
	// simplest first
	for i := 1; i < len(out); i++ {
		for j := i; j > 0 && len(out[j]) < len(out[j-1]); j-- {
			out[j], out[j-1] = out[j-1], out[j]
		}
	}
	return out
}

func (p *c17) Init(tier string) {
	p.tier = tier
	n := 3
	if tier == "thorough" {
		n = 4
	}
	p.idents = allStrings([]string{"a", "b", " ", "'", "[", "]", ".", "0", "é"}, n)
	p.lits = allStrings([]string{"a", " ", "\"", "'", "`", "\\", "[", "]", "ë", "\xe9"}, n)
	// array expressions: all nestings of depth <= 3 with <= 3 (thorough 4) elements per level (bounded)
	elems := []string{"1", "'x'", "a", "'[y]'", "'é'"}
	var gen func(depth int) []string
	gen = func(depth int) []string {
		var inner []string
		inner = append(inner, elems...)
		if depth > 1 {
			sub := gen(depth - 1)
			// a few nested arrays only (the number grows fast)
			for k, s := range sub {
				if k%7 == 0 || len(s) < 8 {
					inner = append(inner, s)
				}
			}
		}
		out := []string{"[]"}
		maxE := 2
		if depth == 1 {
			maxE = 3
		}
		var rec func(cur []string)
		rec = func(cur []string) {
			if len(cur) > 0 {
				out = append(out, "["+strings.Join(cur, ", ")+"]")
			}
			if len(cur) == maxE || len(out) > 4000 {
				return
			}
			for _, e := range inner {
				rec(append(append([]string{}, cur...), e))
			}
		}
		rec(nil)
		return out
	}
	depth := 2
	if tier == "thorough" {
		depth = 3
	}
	p.arrays = gen(depth)
	p.queries = []string{
		"SELECT id, a FROM `root.t` WHERE a > 1",
		"SELECT * FROM `root.t`",
		"SELECT id FROM root.t ORDER BY a DESC LIMIT 2",
		"SELECT g, COUNT(*) AS c FROM `root.t` GROUP BY g",
		"SELECT * FROM `root.t` x JOIN `root.u` y ON x.g = y.g",
		"WITH c AS (SELECT id, a FROM `root.t`) SELECT id FROM c WHERE a >= 2",
		"SELECT id FROM `root.t` WHERE a IN (SELECT b FROM `<-root.u`)",
		"SELECT id, (SELECT b FROM `<-root.u` WHERE b > 2) AS s FROM `root.t`",
		"SELECT id FROM `root.t` WHERE EXISTS (SELECT q FROM items WHERE q > 0)",
		"SELECT DISTINCT g FROM `root.t` UNION ALL SELECT g FROM `root.u`",
		"SELECT id FROM `root.missing`",
		"SELECT `root.t[0].id` AS first FROM dual",
		"SELECT id FROM t",
		"SELECT b FROM u",
		"SELECT id, (SELECT b FROM `<-u`) AS s FROM `root.t`",
	}
	for i := range p.idents {
		p.cases = append(p.cases, c17case{"ident", i})
	}
	for i := range p.lits {
		p.cases = append(p.cases, c17case{"literal", i}, c17case{"btident", i})
	}
	for i := range p.arrays {
		p.cases = append(p.cases, c17case{"array", i})
	}
	for i := range p.queries {
		p.cases = append(p.cases, c17case{"wrapped", i})
	}
	for i := range c17SameText {
		p.cases = append(p.cases, c17case{"same-text", i})
	}
}

// c17SameText: statements whose text is legal with and without an option but means something else;
// the same text is executed under alternating option settings in one process.
var c17SameText = []struct {
	text string // with double quotes / brackets
	opt  int    // the option that changes the reading (1 pg, 2 idiomatic)
	with string // canonical spelling of the reading with the option
	wout string // canonical spelling of the reading without it ("" = must fail)
}{
	{"SELECT \"a\" AS x FROM t", 1, "SELECT `a` AS x FROM t", "SELECT 'a' AS x FROM t"},
	{"SELECT id FROM t WHERE \"b\" = 's'", 1, "SELECT id FROM t WHERE `b` = 's'", "SELECT id FROM t WHERE 'b' = 's'"},
	{"SELECT \"a b\" AS x, \"a0\" AS y FROM t ORDER BY \"a\" DESC", 1, "SELECT `a b` AS x, `a0` AS y FROM t ORDER BY `a` DESC", "SELECT 'a b' AS x, 'a0' AS y FROM t ORDER BY 'a' DESC"},
	{"SELECT id, \"g\" AS k FROM t WHERE \"g\" = 'g'", 1, "SELECT id, `g` AS k FROM t WHERE `g` = 'g'", "SELECT id, 'g' AS k FROM t WHERE 'g' = 'g'"},
	{"SELECT '[a]' AS l, [a, 1] AS v FROM t", 2, "SELECT '[a]' AS l, ARRAY(a, 1) AS v FROM t", ""},
	{"SELECT [[1], 'x'] AS v, id FROM t WHERE id = 1", 2, "SELECT ARRAY(ARRAY(1), 'x') AS v, id FROM t WHERE id = 1", ""},
}

func (p *c17) NumCases() int { return len(p.cases) + 1 }

func (p *c17) Describe(i int) any {
	if i == len(p.cases) {
		return map[string]any{"kind": "Wrapped() against {root: input} when the caller changes the input after New: 7 queries x every sequence of two of 5 changes (first between New and Exec, second between two Execs)"}
	}
	c := p.cases[i]
	switch c.kind {
	case "ident":
		return map[string]any{"kind": "double-quoted identifier vs backtick identifier", "identifier": p.idents[c.idx]}
	case "literal":
		return map[string]any{"kind": "string literal content under every option combination", "literal": p.lits[c.idx]}
	case "btident":
		return map[string]any{"kind": "backtick identifier content under every option combination", "identifier": p.lits[c.idx]}
	case "array":
		return map[string]any{"kind": "[...] vs ARRAY(...)", "expression": p.arrays[c.idx]}
	case "same-text":
		return map[string]any{"kind": "one statement text executed under alternating option settings in one process: each execution must follow the reading its own options give", "text": c17SameText[c.idx].text}
	}
	return map[string]any{"kind": "Wrapped() vs explicit {root: input}", "query": p.queries[c.idx]}
}

func c17Doc() map[string]any {
	return map[string]any{
		"t": []any{
			map[string]any{"id": 0.0, "a": 1.0, "b": "s", "g": "x", "a b": 5.0, "a0": 6.0, "arr": []any{7.0, 8.0}, "items": []any{map[string]any{"q": 1.0}}},
			map[string]any{"id": 1.0, "a": 2.0, "b": "t", "g": "y", "a b": 9.0, "a0": 3.0, "arr": []any{4.0}, "items": []any{}},
			map[string]any{"id": 2.0, "a": 3.0, "b": "s", "g": "x", "a b": 1.0, "a0": 0.0, "arr": []any{}, "items": []any{map[string]any{"q": 0.0}}},
		},
		"u": []any{map[string]any{"b": 2.0, "g": "x"}, map[string]any{"b": 3.0, "g": "z"}},
	}
}

func optCombos() [][]genql.QueryOption {
	var out [][]genql.QueryOption
	for m := 0; m < 8; m++ {
		var o []genql.QueryOption
		if m&1 != 0 {
			o = append(o, genql.PostgresEscapingDialect())
		}
		if m&2 != 0 {
			o = append(o, genql.IdomaticArrays())
		}
		if m&4 != 0 {
			o = append(o, genql.Wrapped())
		}
		out = append(out, o)
	}
	return out
}

func optName(m int) string {
	var s []string
	if m&1 != 0 {
		s = append(s, "pg")
	}
	if m&2 != 0 {
		s = append(s, "idiomatic")
	}
	if m&4 != 0 {
		s = append(s, "wrapped")
	}
	if len(s) == 0 {
		return "none"
	}
	return strings.Join(s, "+")
}

func sqlStr(s string) string {
	r := strings.NewReplacer("\\", "\\\\", "'", "''")
	return "'" + r.Replace(s) + "'"
}

func outcome(o *gq.Out) string {
	if o.Panic != "" || o.GPanic != "" {
		return "panic:" + o.Panic + o.GPanic
	}
	if o.Err != nil {
		return "error"
	}
	return gq.Render(o.Rows)
}

func classOf(s string) string {
	var cs []string
	for _, c := range []struct{ ch, name string }{{"\\", "backslash"}, {"'", "quote"}, {"\"", "dquote"}, {"`", "backtick"}, {"[", "lbracket"}, {"]", "rbracket"}, {" ", "space"}, {".", "dot"}} {
		if strings.Contains(s, c.ch) {
			cs = append(cs, c.name)
		}
	}
	if len(cs) == 0 {
		return "plain"
	}
	return strings.Join(cs, "+")
}

func (p *c17) RunCase(i int) *core.CaseResult {
	defer withNoise()()
	r := &core.CaseResult{}
	if i == len(p.cases) {
		runChangedC17(r)
		return r
	}
	c := p.cases[i]
	combos := optCombos()
	switch c.kind {
	case "ident":
		id := p.idents[c.idx]
		bt := "`" + strings.ReplaceAll(id, "`", "``") + "`"
		dq := "\"" + id + "\""
		for _, tmpl := range []string{"SELECT %s AS v FROM t", "SELECT id FROM t WHERE %s = 5", "SELECT id AS %s FROM t", "SELECT id FROM t ORDER BY %s", "SELECT id, %s FROM t"} {
			canon := fmt.Sprintf(tmpl, bt)
			pg := fmt.Sprintf(tmpl, dq)
			for _, extra := range []int{0, 2} { // also with IdiomaticArrays on both sides
				var oc, op []genql.QueryOption
				if extra != 0 {
					oc = append(oc, genql.IdomaticArrays())
					op = append(op, genql.IdomaticArrays())
				}
				op = append(op, genql.PostgresEscapingDialect())
				a := gq.Run(c17Doc(), canon, oc...)
				b := gq.Run(c17Doc(), pg, op...)
				r.Execs += 2
				oa, ob := outcome(a), outcome(b)
				if !strings.HasPrefix(oa, "error") && !strings.HasPrefix(oa, "panic") {
					r.Nontrivial = true
				}
				r.Outcomes = append(r.Outcomes, classOf(id)+"/"+oa[:min(len(oa), 5)])
				if strings.HasPrefix(ob, "panic") && strings.HasPrefix(oa, "panic") {
					continue // a crash on both sides is C10's matter, not an option-induced difference
				}
				if oa != ob {
					r.Fail("C17|pg-identifier|"+classOf(id)+"|differs", fmt.Sprintf("%s without the option -> %s; %s with PostgresEscapingDialect -> %s (%v)", canon, oa, pg, ob, b.Err), map[string]any{"canonical": canon, "postgres": pg, "idiomatic_arrays_too": extra != 0})
				}
			}
		}
	case "literal":
		lit := p.lits[c.idx]
		sql := "SELECT " + sqlStr(lit) + " AS v, id FROM t WHERE b = " + sqlStr(lit) + " OR id = 0"
		base := gq.Run(c17Doc(), sql)
		r.Execs++
		want := gq.Render([]any{map[string]any{"v": lit, "id": 0.0}})
		if got := outcome(base); got != want {
			r.Fail("C17|harness|literal-baseline", fmt.Sprintf("%s without options returns %s, want %s", sql, got, want), map[string]any{"sql": sql})
			return r
		}
		// second spelling of the same literal: backslash escapes instead of doubled quotes
		sql2 := "SELECT '" + strings.NewReplacer("\\", "\\\\", "'", "\\'").Replace(lit) + "' AS v, id FROM t WHERE id = 0"
		// third spelling: every character behind a backslash of its own (in the MySQL dialect a backslash
		// before a character that needs no escaping stands for that character); checked first without
		// options (if the parser reads it differently the spelling is not used)
		var esc strings.Builder
		for _, ch := range lit {
			esc.WriteByte('\\')
			esc.WriteRune(ch)
		}
		sql3 := "SELECT '" + esc.String() + "' AS v, id FROM t WHERE id = 0"
		spellings := []string{sql, sql2}
		if outcome(gq.Run(c17Doc(), sql3)) == want {
			spellings = append(spellings, sql3)
		}
		r.Execs++
		for _, q := range spellings {
			for m := 1; m < 4; m++ { // pg, idiomatic, both
				o := gq.Run(c17Doc(), q, combos[m]...)
				r.Execs++
				if got := outcome(o); got != want {
					r.Fail("C17|literal-content|"+optName(m)+"|"+classOf(lit), fmt.Sprintf("%s with %s returns %s (%v), without options %s", q, optName(m), got, o.Err, want), map[string]any{"sql": q, "options": optName(m)})
				}
			}
		}
		r.Nontrivial = classOf(lit) != "plain"
		r.Outcomes = append(r.Outcomes, classOf(lit))
	case "btident":
		id := p.lits[c.idx]
		if strings.Contains(id, "`") {
			id = strings.ReplaceAll(id, "`", "")
			if id == "" {
				return r
			}
		}
		sql := "SELECT id AS `" + id + "` FROM t WHERE id = 1"
		base := gq.Run(c17Doc(), sql)
		r.Execs++
		ob := outcome(base)
		if !strings.HasPrefix(ob, "error") {
			r.Nontrivial = true
			if want := gq.Render([]any{map[string]any{id: 1.0}}); ob != want {
				r.Fail("C17|harness|btident-baseline", fmt.Sprintf("%s returns %s, want %s", sql, ob, want), map[string]any{"sql": sql})
				return r
			}
		}
		for m := 1; m < 4; m++ {
			o := gq.Run(c17Doc(), sql, combos[m]...)
			r.Execs++
			if got := outcome(o); got != ob && !(strings.HasPrefix(got, "panic") && strings.HasPrefix(ob, "panic")) {
				r.Fail("C17|backtick-content|"+optName(m)+"|"+classOf(id), fmt.Sprintf("%s with %s returns %s (%v), without options %s", sql, optName(m), got, o.Err, ob), map[string]any{"sql": sql, "options": optName(m)})
			}
		}
		// the identifier followed by further quoted identifiers (what comes after a backtick identifier
		// must still be read in the right quoting state): canonical spelling without options vs the
		// double-quoted spelling of the later identifiers under the dialect option
		canon2 := "SELECT id AS `" + id + "`, a AS `z q`, b AS `k` FROM `t` WHERE id = 1"
		pg2 := "SELECT id AS `" + id + "`, a AS \"z q\", b AS `k` FROM \"t\" WHERE id = 1"
		oc, op := outcome(gq.Run(c17Doc(), canon2)), outcome(gq.Run(c17Doc(), pg2, combos[1]...))
		r.Execs += 2
		if oc != op && !(strings.HasPrefix(oc, "panic") && strings.HasPrefix(op, "panic")) {
			r.Fail("C17|backtick-then-quoted|pg|"+classOf(id), fmt.Sprintf("%s -> %s; %s with pg -> %s", canon2, oc, pg2, op), map[string]any{"canonical": canon2, "pg": pg2})
		}
		r.Outcomes = append(r.Outcomes, classOf(id))
	case "array":
		br := p.arrays[c.idx]
		fn := strings.NewReplacer("[", "ARRAY(", "]", ")").Replace(strings.ReplaceAll(br, "'[y]'", "\x00"))
		fn = strings.ReplaceAll(fn, "\x00", "'[y]'")
		for _, tmpl := range []string{"SELECT %s AS v, `arr[0]` AS w FROM t", "SELECT `arr[0]` AS w, '[z]' AS l, %s AS v FROM t", "SELECT id FROM t WHERE FIRST(%s) = 1 AND b != '[]'",
			// multi-byte characters before, between and after the brackets (offsets are byte offsets)
			"SELECT 'Zoë' AS who, %s AS v FROM t", "SELECT a AS `größe`, %s AS v, 'ж' AS z FROM t",
			// MySQL double-quoted string literals before the brackets (IdiomaticArrays without the dialect option)
			"SELECT \"dq\" AS d, %s AS v FROM t", "SELECT \"it's [x]\" AS d, %s AS v, \"]\" AS e FROM t"} {
			canon := fmt.Sprintf(tmpl, fn)
			idi := fmt.Sprintf(tmpl, br)
			a := gq.Run(c17Doc(), canon)
			r.Execs++
			oa := outcome(a)
			for _, m := range []int{2, 3} {
				if m == 3 && strings.Contains(tmpl, "\"") {
					continue // under the dialect option a double-quoted token is an identifier: another statement
				}
				b := gq.Run(c17Doc(), idi, combos[m]...)
				// the canonical spelling under the option must be unchanged too
				c2 := gq.Run(c17Doc(), canon, combos[m]...)
				r.Execs += 2
				ob, oc := outcome(b), outcome(c2)
				if strings.HasPrefix(ob, "panic") && strings.HasPrefix(oa, "panic") {
					continue
				}
				if oa != ob {
					r.Fail("C17|idiomatic-arrays|"+optName(m)+"|differs", fmt.Sprintf("%s -> %s; %s with %s -> %s (%v)", canon, oa, idi, optName(m), ob, b.Err), map[string]any{"canonical": canon, "idiomatic": idi, "options": optName(m)})
				}
				if oa != oc {
					r.Fail("C17|idiomatic-arrays|"+optName(m)+"|canonical-changed", fmt.Sprintf("%s -> %s without options but %s with %s", canon, oa, oc, optName(m)), map[string]any{"canonical": canon, "options": optName(m)})
				}
			}
			if !strings.HasPrefix(oa, "error") {
				r.Nontrivial = true
			}
			r.Outcomes = append(r.Outcomes, fmt.Sprintf("depth%d/%s", strings.Count(br, "[["), oa[:min(len(oa), 5)]))
		}
		// both options together: a double-quoted identifier with an escaped quote (it shrinks when it
		// is rewritten) in front of the brackets - canonical spelling with backticks and ARRAY(...)
		for _, pair := range [][2]string{
			{"SELECT a AS `q\"x`, " + fn + " AS v FROM t", "SELECT a AS \"q\\\"x\", " + br + " AS v FROM t"},
			{"SELECT `a` AS `k`, " + fn + " AS v, 'é' AS z FROM `t`", "SELECT \"a\" AS \"k\", " + br + " AS v, 'é' AS z FROM \"t\""},
		} {
			oa, ob := outcome(gq.Run(c17Doc(), pair[0])), outcome(gq.Run(c17Doc(), pair[1], combos[3]...))
			r.Execs += 2
			if oa != ob && !(strings.HasPrefix(oa, "panic") && strings.HasPrefix(ob, "panic")) {
				r.Fail("C17|idiomatic-arrays|pg+idiomatic|quoted-identifier-before-brackets", fmt.Sprintf("%s -> %s; %s with pg+idiomatic -> %s", pair[0], oa, pair[1], ob), map[string]any{"canonical": pair[0], "both_options": pair[1]})
			}
		}
	case "same-text":
		e := c17SameText[c.idx]
		wantWith := outcome(gq.Run(c17Doc(), e.with))
		wantWout := "error"
		if e.wout != "" {
			wantWout = outcome(gq.Run(c17Doc(), e.wout))
		}
		r.Execs += 2
		// two orders, each on a text of its own (the order in which the readings are first seen matters)
		for order, suffix := range []string{" LIMIT 10", " LIMIT 11"} {
			text := e.text + suffix
			for step := 0; step < 4; step++ {
				on := (step+order)%2 == 0
				var o *gq.Out
				want := wantWout
				if on {
					o = gq.Run(c17Doc(), text, combos[e.opt]...)
					want = wantWith
				} else {
					o = gq.Run(c17Doc(), text)
				}
				r.Execs++
				got := outcome(o)
				if want == "error" && strings.HasPrefix(got, "error") {
					continue
				}
				if got != want {
					r.Fail("C17|same-text|"+optName(e.opt)+"|reading-depends-on-history", fmt.Sprintf("%s executed with the option %s=%v (execution %d of an alternating sequence in one process, first execution with the option: %v) returned %s; that reading, spelled canonically, returns %s", text, optName(e.opt), on, step+1, order == 0, got, want), map[string]any{"text": text, "option": optName(e.opt), "with_option": on, "step": step})
					break
				}
			}
		}
		r.Nontrivial = true
	case "wrapped":
		sql := p.queries[c.idx]
		for _, m := range []int{0, 1, 2, 3} {
			opts := combos[m]
			a := gq.Run(map[string]any{"root": c17Doc()}, sql, opts...)
			b := gq.Run(c17Doc(), sql, append(append([]genql.QueryOption{}, opts...), genql.Wrapped())...)
			r.Execs += 2
			// the same on an input that has a top-level key named root of its own
			rooted := func() map[string]any {
				d := c17Doc()
				d["root"] = map[string]any{"t": []any{map[string]any{"id": 9.0, "a": 9.0, "g": "z", "items": []any{}}}, "u": []any{}}
				return d
			}
			a2 := gq.Run(map[string]any{"root": rooted()}, sql, opts...)
			b2 := gq.Run(rooted(), sql, append(append([]genql.QueryOption{}, opts...), genql.Wrapped())...)
			r.Execs += 2
			if oa2, ob2 := outcome(a2), outcome(b2); oa2 != ob2 && !(strings.HasPrefix(oa2, "panic") && strings.HasPrefix(ob2, "panic")) {
				r.Fail("C17|wrapped|"+optName(m)+"|own-root-key", fmt.Sprintf("%s on an input with a top-level key `root`: {root: input} -> %s; Wrapped() -> %s", sql, oa2, ob2), map[string]any{"sql": sql, "options": optName(m)})
			}
			oa, ob := outcome(a), outcome(b)
			if !strings.HasPrefix(oa, "error") && oa != "[]" {
				r.Nontrivial = true
			}
			r.Outcomes = append(r.Outcomes, oa[:min(len(oa), 12)])
			if oa != ob {
				r.Fail("C17|wrapped|"+optName(m)+"|differs", fmt.Sprintf("%s on {root: doc} -> %s; on doc with Wrapped() -> %s (%v)", sql, oa, ob, b.Err), map[string]any{"sql": sql, "options": optName(m)})
			}
		}
	}
	return r
}

func (p *c17) Meta() core.Meta {
	return core.Meta{
		Rule:        "identifier cases: every string of length 1..3 (thorough 4) over {a,b,space,',[,],.,0,é} as a double-quoted identifier under PostgresEscapingDialect vs the same backtick identifier without it, in 5 clause positions, with and without IdiomaticArrays; literal cases: every string of length 1..3 (thorough 4) over {a,space,\",',`,\\,[,],ë} as a string literal (echo and WHERE operand) and as a backtick alias under the three non-trivial option combinations; array cases: every bracket expression of depth <= 2 (thorough 3) over elements {1,'x',a,'[y]','é',nested} vs the ARRAY(...) spelling, next to a backtick selector with brackets, a literal with brackets, and literals / aliases with multi-byte characters before and after the brackets; same-text cases: 6 statements that are legal with and without an option but mean something else, executed under alternating settings in one process (both orders); wrapped cases: 15 queries (paths, joins, CTE, subqueries with <-, EXISTS, UNION, missing path) on {root: doc} vs doc with Wrapped() (also for a doc that has a top-level key named root of its own), under 4 option combinations. Oracle: both executions return the same rows or both fail; literal and alias contents are compared with the expected value directly. non-trivial = the canonical execution succeeded / the string contains a special character; one case comparing Wrapped() with {root: input} when the input is changed after New (7 queries x every sequence of two of 5 changes)",
		Assumptions: []string{"double quotes inside double-quoted identifiers are outside the enumerated alphabet (the property fixes no escape for them)", "a panic on both sides is C10's matter and is not counted as an option-induced difference"},
		Bounds:      map[string]any{"identifiers": len(p.idents), "literals": len(p.lits), "array_expressions": len(p.arrays), "wrapped_queries": len(p.queries)},
		Exhaustive:  true,
	}
}
