package props

import (
	"github.com/vedadiyan/genql/vrt"
	"verif/harness/explore"
)

func newExplorer(run func(prefix []int32) *vrt.Result, check func(prefix []int32, r *vrt.Result) bool, maxExecs int64) *explore.Explorer {
	return &explore.Explorer{Run: run, Check: check, MaxExecs: maxExecs}
}
