package props

import (
	"fmt"
	"github.com/vedadiyan/genql"
	"github.com/vedadiyan/genql/vrt"
	"verif/harness/explore"
	"verif/harness/gq"
)

func newExplorer(run func(prefix []int32) *vrt.Result, check func(prefix []int32, r *vrt.Result) bool, maxExecs int64) *explore.Explorer {
	return &explore.Explorer{Run: run, Check: check, MaxExecs: maxExecs}
}

// execMutateExec builds one Query, executes it, lets the caller change the input in place (the values
// of rows, the variables, the constants, a top-level key ...), executes the same Query again and
// compares with a fresh query built after the change.  Returns the rendered second result, the
// rendered fresh result and the first error / panic met ("" if none).
func execMutateExec(doc map[string]any, sql string, opts []genql.QueryOption, mutate func()) (second, fresh, problem string) {
	second, fresh, problem, _ = execMutateExecF(doc, sql, opts, mutate, false)
	return
}

// execMutateExecF: with firstMayFail a failing first execution is tolerated (and reported through
// firstFailed) - the history "an execution fails, the caller repairs the rows, the same Query is
// executed again".
func execMutateExecF(doc map[string]any, sql string, opts []genql.QueryOption, mutate func(), firstMayFail bool) (second, fresh, problem string, firstFailed bool) {
	vrt.Run(gq.Seq, nil, func() {
		defer func() {
			if rec := recover(); rec != nil {
				problem = fmt.Sprint("panic: ", rec)
			}
		}()
		q, err := genql.New(doc, sql, opts...)
		if err != nil {
			problem = "New: " + err.Error()
			return
		}
		if _, err := q.Exec(); err != nil {
			if !firstMayFail {
				problem = "first Exec: " + err.Error()
				return
			}
			firstFailed = true
		}
		mutate()
		rows2, err := q.Exec()
		if err != nil {
			problem = "second Exec: " + err.Error()
			return
		}
		second = gq.Render(rows2)
		f, err := genql.New(doc, sql, opts...)
		if err != nil {
			problem = "fresh New: " + err.Error()
			return
		}
		rows3, err := f.Exec()
		if err != nil {
			problem = "fresh Exec: " + err.Error()
			return
		}
		fresh = gq.Render(rows3)
	})
	return
}
