package props

import (
	"fmt"
	"math"
	"strconv"
	"strings"
)

// Reference evaluator for the path-selector language (README "Selector Language Guide"), written
// against the generator's own step list - it never parses selector text and imports nothing from
// genql.  Reading adopted where the guide is silent:
//   - a key or pipe step applied to an array maps over the elements together with all remaining steps;
//   - `[d1:d2:...]` walks successive dimensions: an integer indexes, `each` maps over the dimension,
//     `(m:n)` slices and the remaining dimensions continue on the slice; the result of a non-keep
//     step is flattened by (number of dimensions - 1) levels, `keep=>` keeps the nesting;
//   - NULL absorbs every further step; a missing key is NULL;
//   - a step on a value of the wrong shape, an index outside [0,len) or a bound outside [0,len]
//     (or begin > end) is an error.

type selStep struct {
	kind  string    // key | index | pipe | cont | fn
	key   string    // key / function name
	quote bool      // render the key in single quotes
	keep  bool      // index: keep=>
	dims  []selDim  // index
	pipes []selPipe // pipe
}

type selDim struct {
	kind string // int | each | range
	i    int
	b, e int // range; -1 = begin / end
}

type selPipe struct {
	key, typ string
}

type selErr struct{ msg string }

func (e *selErr) Error() string { return e.msg }

func (s selStep) text() string {
	switch s.kind {
	case "key":
		if s.quote {
			return "'" + s.key + "'"
		}
		return s.key
	case "index":
		var parts []string
		for _, d := range s.dims {
			switch d.kind {
			case "int":
				parts = append(parts, strconv.Itoa(d.i))
			case "each":
				parts = append(parts, "each")
			case "range":
				b, e := strconv.Itoa(d.b), strconv.Itoa(d.e)
				if d.b < 0 {
					b = "begin"
				}
				if d.e < 0 {
					e = "end"
				}
				parts = append(parts, "("+b+":"+e+")")
			}
		}
		k := ""
		if s.keep {
			k = "keep=>"
		}
		return "[" + k + strings.Join(parts, ":") + "]"
	case "pipe":
		var parts []string
		for _, p := range s.pipes {
			if p.typ != "" {
				parts = append(parts, p.key+"|"+p.typ)
			} else {
				parts = append(parts, p.key)
			}
		}
		return "{" + strings.Join(parts, ", ") + "}"
	case "bad":
		return s.key // verbatim text of a step that does not parse
	case "cont":
		return "::"
	case "fn":
		return s.key + "=>"
	}
	return "?"
}

// selText renders a step list as selector text: keys are joined with '.', other steps attach directly.
func selText(steps []selStep) string {
	var sb strings.Builder
	prev := ""
	for _, s := range steps {
		if s.kind == "key" && (prev == "key" || prev == "index" || prev == "pipe" || prev == "bad") {
			sb.WriteByte('.')
		}
		sb.WriteString(s.text())
		prev = s.kind
	}
	return sb.String()
}

// refSelect evaluates the step list on doc.  pipeLaw reports `{k|string}` conversions of numbers so
// that the caller can check them as a law (the textual format is not fixed by the guide).
func refSelect(doc any, steps []selStep) (any, error) {
	// a selector is parsed as a whole before anything is evaluated: a step that does not parse is an
	// error whatever the data
	for _, st := range steps {
		if st.kind == "bad" {
			return nil, &selErr{"step does not parse: " + st.key}
		}
	}
	// split at "::" into segments; a segment may start with fn=>
	cur := doc
	seg := []selStep{}
	flush := func() error {
		var fn string
		s := seg
		if len(s) > 0 && s[0].kind == "fn" {
			fn = s[0].key
			s = s[1:]
		}
		for _, x := range s {
			if x.kind == "fn" {
				return &selErr{"function marker inside a segment"}
			}
		}
		v, err := refReader(cur, s)
		if err != nil {
			return err
		}
		if fn != "" {
			v, err = refTopLevel(fn, v)
			if err != nil {
				return err
			}
		}
		cur = v
		seg = seg[:0]
		return nil
	}
	for _, s := range steps {
		if s.kind == "cont" {
			if err := flush(); err != nil {
				return nil, err
			}
			continue
		}
		seg = append(seg, s)
	}
	if err := flush(); err != nil {
		return nil, err
	}
	return cur, nil
}

func refTopLevel(fn string, v any) (any, error) {
	switch fn {
	case "mix":
		switch t := v.(type) {
		case []any:
			return refMixArray(t), nil
		case map[string]any:
			return refMixObject(t), nil
		}
		return nil, &selErr{"mix on a scalar"}
	case "distinct":
		arr, ok := v.([]any)
		if !ok {
			return nil, &selErr{"distinct on a non-array"}
		}
		out := []any{}
		seen := map[string]bool{}
		for _, x := range arr {
			k := refRender(x)
			if !seen[k] {
				seen[k] = true
				out = append(out, x)
			}
		}
		return out, nil
	}
	return nil, &selErr{"unknown top-level function " + fn}
}

func refMixArray(a []any) []any {
	out := []any{}
	for _, x := range a {
		if sub, ok := x.([]any); ok {
			out = append(out, refMixArray(sub)...)
		} else {
			out = append(out, x)
		}
	}
	return out
}

func refMixObject(m map[string]any) map[string]any {
	out := map[string]any{}
	for k, v := range m {
		if sub, ok := v.(map[string]any); ok {
			for k2, v2 := range refMixObject(sub) {
				out[k+"_"+k2] = v2
			}
		} else {
			out[k] = v
		}
	}
	return out
}

// refRender: typed canonical text (distinct must not merge 1 and "1").
func refRender(v any) string {
	switch t := v.(type) {
	case nil:
		return "null"
	case string:
		return strconv.Quote(t)
	case []any:
		s := "["
		for _, x := range t {
			s += refRender(x) + ","
		}
		return s + "]"
	case map[string]any:
		keys := make([]string, 0, len(t))
		for k := range t {
			keys = append(keys, k)
		}
		sortStrings(keys)
		s := "{"
		for _, k := range keys {
			s += strconv.Quote(k) + ":" + refRender(t[k]) + ","
		}
		return s + "}"
	}
	return fmt.Sprintf("%v", v)
}

func sortStrings(s []string) {
	for i := 1; i < len(s); i++ {
		for j := i; j > 0 && s[j] < s[j-1]; j-- {
			s[j], s[j-1] = s[j-1], s[j]
		}
	}
}

func refReader(data any, steps []selStep) (any, error) {
	if len(steps) == 0 {
		return data, nil
	}
	if data == nil {
		return nil, nil
	}
	s := steps[0]
	switch s.kind {
	case "key":
		switch t := data.(type) {
		case map[string]any:
			return refReader(t[s.key], steps[1:])
		case []any:
			out := make([]any, len(t))
			for i, x := range t {
				v, err := refReader(x, steps)
				if err != nil {
					return nil, err
				}
				out[i] = v
			}
			return out, nil
		}
		return nil, &selErr{"key step on a scalar"}
	case "index":
		arr, ok := data.([]any)
		if !ok {
			return nil, &selErr{"index step on a non-array"}
		}
		v, err := refDims(arr, s.dims)
		if err != nil {
			return nil, err
		}
		if !s.keep {
			if a, isArr := v.([]any); isArr {
				v = refUnwind(a, len(s.dims)-1)
			}
		}
		return refReader(v, steps[1:])
	case "pipe":
		switch t := data.(type) {
		case map[string]any:
			cp := map[string]any{}
			for _, p := range s.pipes {
				val := t[p.key]
				switch p.typ {
				case "":
					cp[p.key] = val
				case "string":
					if _, isPS := val.(pipeString); isPS {
						cp[p.key] = val // the string form of a string is the string itself
					} else {
						cp[p.key] = pipeString{val}
					}
				case "number":
					if ps, isPS := val.(pipeString); isPS {
						// the text produced by an earlier `|string`: a string stays itself, a number's
						// text parses back to the number (law), anything else is not numeric text
						switch o := ps.of.(type) {
						case string:
							val = o
						case float64:
							cp[p.key] = o
							continue
						default:
							return nil, &selErr{"number pipe: not a number"}
						}
					}
					str, ok := val.(string)
					if !ok {
						return nil, &selErr{"number pipe on a non-string"}
					}
					f, err := strconv.ParseFloat(str, 64)
					if err != nil {
						return nil, &selErr{"number pipe: not a number"}
					}
					cp[p.key] = f
				default:
					return nil, &selErr{"unknown pipe type"}
				}
			}
			return refReader(cp, steps[1:])
		case []any:
			out := make([]any, len(t))
			for i, x := range t {
				v, err := refReader(x, steps)
				if err != nil {
					return nil, err
				}
				out[i] = v
			}
			return out, nil
		}
		return nil, &selErr{"pipe step on a scalar"}
	}
	if s.kind == "bad" {
		return nil, &selErr{"step does not parse: " + s.key}
	}
	return nil, &selErr{"unexpected step " + s.kind}
}

// pipeString marks the result of `{k|string}`: compared by law (see selEqual), not by format.
type pipeString struct{ of any }

func refDims(data any, dims []selDim) (any, error) {
	if len(dims) == 0 {
		return data, nil
	}
	arr, ok := data.([]any)
	if !ok {
		return nil, &selErr{"dimension on a non-array"}
	}
	d := dims[0]
	switch d.kind {
	case "range":
		b, e := d.b, d.e
		if b < 0 {
			b = 0
		}
		if e < 0 {
			e = len(arr)
		}
		if b > e || e > len(arr) {
			return nil, &selErr{"slice bounds outside the array"}
		}
		return refDims(arr[b:e:e], dims[1:])
	case "each":
		out := []any{}
		for _, x := range arr {
			v, err := refDims(x, dims[1:])
			if err != nil {
				return nil, err
			}
			out = append(out, v)
		}
		return out, nil
	case "int":
		if d.i < 0 || d.i >= len(arr) {
			return nil, &selErr{"index outside the array"}
		}
		return refDims(arr[d.i], dims[1:])
	}
	return nil, &selErr{"bad dimension"}
}

func refUnwind(a []any, depth int) []any {
	if depth <= 0 {
		return a
	}
	out := []any{}
	for _, x := range a {
		if sub, ok := x.([]any); ok {
			out = append(out, refUnwind(sub, depth-1)...)
		} else {
			out = append(out, x)
		}
	}
	return out
}

// selEqual compares an implementation value with a reference value; pipeString leaves are checked
// by law: integer-valued number (inside the int64 range) -> an integer numeral that reads back as the number (below 2^53: its decimal integer text); other number -> any text that parses
// back to the same number; string -> itself; NULL/bool/other -> any string.
func selEqual(got, want any) bool {
	switch w := want.(type) {
	case pipeString:
		s, ok := got.(string)
		if !ok {
			return false
		}
		switch o := w.of.(type) {
		case float64:
			if o == math.Trunc(o) && o > -(1<<63) && o < (1<<63) {
				// an integer numeral (no fraction, no exponent) that reads back as the same number:
				// below 2^53 that is the one decimal text of the number; beyond, a double has several
				// (2^60 is 1152921504606846976 and, in its shortest digits, 1152921504606847000)
				if s == strconv.FormatInt(int64(o), 10) {
					return true
				}
				if math.Abs(o) < (1 << 53) {
					return false
				}
				digits := strings.TrimPrefix(s, "-")
				if digits == "" || strings.Trim(digits, "0123456789") != "" {
					return false
				}
				f, err := strconv.ParseFloat(s, 64)
				return err == nil && f == o
			}
			f, err := strconv.ParseFloat(s, 64)
			return err == nil && (f == o || fmt.Sprintf("%f", o) == s)
		case string:
			return s == o
		}
		return true
	case nil:
		return got == nil
	case []any:
		g, ok := got.([]any)
		if !ok || len(g) != len(w) {
			return false
		}
		for i := range w {
			if !selEqual(g[i], w[i]) {
				return false
			}
		}
		return true
	case map[string]any:
		g, ok := got.(map[string]any)
		if !ok || len(g) != len(w) {
			return false
		}
		for k, v := range w {
			gv, has := g[k]
			if !has || !selEqual(gv, v) {
				return false
			}
		}
		return true
	case float64:
		g, ok := got.(float64)
		return ok && g == w
	case string:
		g, ok := got.(string)
		return ok && g == w
	case bool:
		g, ok := got.(bool)
		return ok && g == w
	}
	return false
}

func refShow(v any) string {
	switch t := v.(type) {
	case pipeString:
		return "string(" + refRender(t.of) + ")"
	case []any:
		s := "["
		for i, x := range t {
			if i > 0 {
				s += ","
			}
			s += refShow(x)
		}
		return s + "]"
	case map[string]any:
		keys := make([]string, 0, len(t))
		for k := range t {
			keys = append(keys, k)
		}
		sortStrings(keys)
		s := "{"
		for i, k := range keys {
			if i > 0 {
				s += ","
			}
			s += strconv.Quote(k) + ":" + refShow(t[k])
		}
		return s + "}"
	}
	return refRender(v)
}
