package props

import (
	"fmt"
	"math"
	"strings"

	"github.com/vedadiyan/genql"
	sanitize "github.com/vedadiyan/genql/sanitizer"
	"github.com/vedadiyan/sqlparser/v2"
	"verif/harness/core"
	"verif/harness/gq"
)

// C16: sanitized parameters are injection-safe for the library's own parser.

type c16tmpl struct {
	name string
	sql  string // with $1 (and $2)
	n    int    // number of placeholders
	kind string // "echo" | "where" | "in" | "quoted"
}

var c16Templates = []c16tmpl{
	{"echo", "SELECT $1 AS v FROM dual", 1, "echo"},
	{"where", "SELECT id FROM t WHERE name = $1", 1, "where"},
	{"where-and", "SELECT id FROM t WHERE name = $1 AND id >= 0", 1, "where"},
	{"in-list", "SELECT id FROM t WHERE name IN ($1, $2)", 2, "in"},
	{"two-placeholders", "SELECT $1 AS v, $2 AS w FROM dual", 2, "echo2"},
	{"concat", "SELECT CONCAT($1, 'x', $1) AS v FROM dual", 1, "concat"},
}

// templates whose first "$1" is inside a quoted region and must be left alone; the second is live
var c16Quoted = []struct{ name, sql string }{
	{"single-quoted", "SELECT '$1' AS q, $1 AS v FROM dual"},
	{"single-quoted-with-escaped-quote", "SELECT 'a''$1' AS q, $1 AS v FROM dual"},
	{"single-quoted-with-backslash-quote", "SELECT 'a\\'$1' AS q, $1 AS v FROM dual"},
	{"double-quoted", "SELECT \"$1\" AS q, $1 AS v FROM dual"},
	{"backtick-identifier", "SELECT `$1` AS q, $1 AS v FROM dual"},
	{"line-comment", "SELECT /* x */ $1 AS v -- $1\n FROM dual"},
	{"hash-comment", "SELECT $1 AS v # $1\n FROM dual"},
	{"block-comment", "SELECT /* $1 */ $1 AS v FROM dual"},
	// a placeholder directly followed by a comment introducer or a quote (no blank in between)
	{"adjacent-block-comment", "SELECT $1/* $1 */ AS v FROM dual"},
	{"adjacent-line-comment", "SELECT $1-- $1\n AS v FROM dual"},
	{"adjacent-hash-comment", "SELECT $1# $1\n AS v FROM dual"},
	{"adjacent-backtick", "SELECT $1`$1` FROM dual"},
	// a string literal directly behind a word that ends in e / E (no blank): still an ordinary MySQL literal
	{"literal-glued-to-word", "SELECT 'x' LIKE'o\\'$1' AS q, $1 AS v FROM dual"},
	{"literal-glued-to-else", "SELECT CASE WHEN 1 = 2 THEN 'a' ELSE'b\\'$1' END AS q, $1 AS v FROM dual"},
	// a backslash is an ordinary character between backticks: the identifier ends at the next backtick
	{"backtick-ending-in-backslash", "SELECT `k\\` AS a, `$1` AS q, $1 AS v FROM dual"},
	{"backtick-ending-in-backslash-then-literal", "SELECT a AS `k\\`, '$1' AS q, $1 AS v FROM dual"},
	{"double-quoted-ending-in-escaped-backslash", "SELECT \"k\\\\\" AS a, \"$1\" AS q, $1 AS v FROM dual"},
}

type c16 struct {
	tier   string
	alpha  []string
	maxLen int
	args   []string // prefixes: one case per (template, first character)
}

func init() { core.Register("C16", func() core.Prop { return &c16{} }) }

func (p *c16) ID() string { return "C16" }

func (p *c16) Init(tier string) {
	p.tier = tier
	p.alpha = []string{"a", "'", "\\", "\"", "`", "-", "#", "/", "*", ";", " ", "\x00", "\n", "%", "$", "1", "é", "\xe9"}
	p.maxLen = 3
	if tier == "thorough" {
		p.maxLen = 4
	}
}

// cases: [0, T*A): template t, first character a (all strings starting with it); then T cases for the
// empty string and non-string arguments; then the quoted-context cases; then the error cases.
func (p *c16) NumCases() int {
	return len(c16Templates)*len(p.alpha) + len(c16Templates) + len(c16Quoted) + 1
}

func (p *c16) Describe(i int) any {
	T, A := len(c16Templates), len(p.alpha)
	switch {
	case i < T*A:
		return map[string]any{"template": c16Templates[i/A].sql, "arguments": fmt.Sprintf("all strings of length 1..%d over %q starting with %q", p.maxLen, strings.Join(p.alpha, ""), p.alpha[i%A])}
	case i < T*A+T:
		return map[string]any{"template": c16Templates[i-T*A].sql, "arguments": "empty string, int64 / float64 boundary values, booleans, NULL, SQL keywords"}
	case i < T*A+T+len(c16Quoted):
		return map[string]any{"template": c16Quoted[i-T*A-T].sql, "arguments": "strings of length <= 2; the quoted / commented $1 must be left alone"}
	}
	return map[string]any{"kind": "missing / unused arguments and $0 are errors, not panics"}
}

// maskAndLiterals parses sql and returns the statement text with every literal masked, and the
// literals in walk order.
func maskAndLiterals(sql string) (masked string, lits []*sqlparser.Literal, err error) {
	stmt, err := genql.Parse(sql)
	if err != nil {
		return "", nil, err
	}
	sqlparser.Walk(func(n sqlparser.SQLNode) (bool, error) {
		if l, ok := n.(*sqlparser.Literal); ok {
			lits = append(lits, &sqlparser.Literal{Type: l.Type, Val: l.Val})
		}
		return true, nil
	}, stmt)
	out := sqlparser.Rewrite(sqlparser.CloneStatement(stmt), func(c *sqlparser.Cursor) bool {
		if l, ok := c.Node().(*sqlparser.Literal); ok {
			c.Replace(&sqlparser.Literal{Type: l.Type, Val: "?"})
		}
		return true
	}, nil)
	return sqlparser.String(out), lits, nil
}

func sanitizeNoPanic(tmpl string, args ...any) (s string, err error, pan string) {
	defer func() {
		if r := recover(); r != nil {
			pan = fmt.Sprint(r)
		}
	}()
	s, err = sanitize.SanitizeSQL(tmpl, args...)
	return
}

func c16Class(arg string) string {
	var cs []string
	for _, c := range []struct{ ch, name string }{{"\\", "backslash"}, {"'", "quote"}, {"\"", "dquote"}, {"`", "backtick"}, {"\x00", "nul"}, {"\n", "newline"}, {"$", "dollar"}, {"#", "hash"}, {"-", "dash"}, {"/", "slash"}, {";", "semicolon"}} {
		if strings.Contains(arg, c.ch) {
			cs = append(cs, c.name)
		}
	}
	if len(cs) == 0 {
		return "plain"
	}
	if len(cs) > 2 {
		cs = cs[:2]
	}
	return strings.Join(cs, "+")
}

var c16Table = func(arg, arg2 string) map[string]any {
	return map[string]any{"t": []any{
		map[string]any{"id": 0.0, "name": "zzz-other"},
		map[string]any{"id": 1.0, "name": arg},
		map[string]any{"id": 2.0, "name": "q" + arg},
		map[string]any{"id": 3.0, "name": arg2},
		map[string]any{"id": 4.0, "name": ""},
	}}
}

func (p *c16) checkString(r *core.CaseResult, t *c16tmpl, arg string) {
	args := []any{arg}
	arg2 := "b" + arg
	if t.n == 2 {
		args = append(args, arg2)
	}
	sig := func(mode string) string { return "C16|" + t.name + "|" + c16Class(arg) + "|" + mode }
	cs := map[string]any{"template": t.sql, "args": args}
	s, err, pan := sanitizeNoPanic(t.sql, args...)
	r.Execs++
	if pan != "" {
		r.Fail(sig("sanitize-panic"), fmt.Sprintf("SanitizeSQL(%q, %q) panicked: %s", t.sql, args, pan), cs)
		return
	}
	if err != nil {
		r.Fail(sig("sanitize-error"), fmt.Sprintf("SanitizeSQL(%q, %q) failed: %v", t.sql, args, err), cs)
		return
	}
	cs["sanitized"] = s
	// shape: same statement as the template with one string literal per placeholder
	ref := strings.ReplaceAll(strings.ReplaceAll(t.sql, "$1", "'ZZP1ZZ'"), "$2", "'ZZP2ZZ'")
	wantMask, wantLits, rerr := maskAndLiterals(ref)
	if rerr != nil {
		r.Fail("C16|harness|template", fmt.Sprintf("template %q does not parse: %v", ref, rerr), nil)
		return
	}
	gotMask, gotLits, perr := maskAndLiterals(s)
	if perr != nil {
		r.Fail(sig("unparsable"), fmt.Sprintf("SanitizeSQL(%q, %q) = %q does not parse: %v", t.sql, args, s, perr), cs)
		return
	}
	if gotMask != wantMask || len(gotLits) != len(wantLits) {
		r.Fail(sig("statement-shape-changed"), fmt.Sprintf("SanitizeSQL(%q, %q) = %q parses to %q, the template with a literal at each placeholder parses to %q", t.sql, args, s, gotMask, wantMask), cs)
		return
	}
	for k, wl := range wantLits {
		want := ""
		switch wl.Val {
		case "ZZP1ZZ":
			want = arg
		case "ZZP2ZZ":
			want = arg2
		default:
			continue
		}
		if gotLits[k].Type != sqlparser.StrVal || gotLits[k].Val != want {
			r.Fail(sig("literal-value-changed"), fmt.Sprintf("SanitizeSQL(%q, %q) = %q: the literal at the placeholder is %q (type %v), the argument is %q", t.sql, args, s, gotLits[k].Val, gotLits[k].Type, want), cs)
			return
		}
	}
	// behaviour through Exec
	doc := c16Table(arg, arg2)
	out := gq.Run(doc, s)
	r.Execs++
	if out.Failed() {
		r.Fail(sig("exec-"+out.Status()), fmt.Sprintf("%q (from %q, %q) failed in New/Exec: %v %s", s, t.sql, args, out.Err, out.Panic), cs)
		return
	}
	var want string
	switch t.kind {
	case "echo":
		want = gq.Render([]any{map[string]any{"v": arg}})
	case "echo2":
		want = gq.Render([]any{map[string]any{"v": arg, "w": arg2}})
	case "concat":
		want = gq.Render([]any{map[string]any{"v": arg + "x" + arg}})
	case "where":
		ids := []any{}
		for _, row := range doc["t"].([]any) {
			if row.(map[string]any)["name"] == arg {
				ids = append(ids, map[string]any{"id": row.(map[string]any)["id"]})
			}
		}
		want = gq.Render(ids)
	case "in":
		ids := []any{}
		for _, row := range doc["t"].([]any) {
			if n := row.(map[string]any)["name"]; n == arg || n == arg2 {
				ids = append(ids, map[string]any{"id": row.(map[string]any)["id"]})
			}
		}
		want = gq.Render(ids)
	}
	got := gq.Render(out.Rows)
	r.Outcomes = append(r.Outcomes, c16Class(arg))
	if c16Class(arg) != "plain" {
		r.Nontrivial = true
	}
	if got != want {
		r.Fail(sig("wrong-result"), fmt.Sprintf("%q (from %q, %q) returned %s, want %s", s, t.sql, args, got, want), cs)
	}
}

func (p *c16) RunCase(i int) *core.CaseResult {
	r := &core.CaseResult{}
	T, A := len(c16Templates), len(p.alpha)
	switch {
	case i < T*A:
		t := &c16Templates[i/A]
		var rec func(s string)
		rec = func(s string) {
			p.checkString(r, t, s)
			if len([]rune(s)) >= p.maxLen {
				return
			}
			for _, c := range p.alpha {
				rec(s + c)
			}
		}
		rec(p.alpha[i%A])
	case i < T*A+T:
		t := &c16Templates[i-T*A]
		for _, s := range []string{"", "NULL", "' OR 1=1 -- ", "\\' OR 1=1 -- ", "\\", "x\\", "'; DROP TABLE t; --", "1 UNION SELECT 2", "$1", "$2", "`id`", "/*", "*/", "--", "\\\\'"} {
			p.checkString(r, t, s)
		}
		p.checkOther(r, t)
	case i < T*A+T+len(c16Quoted):
		p.checkQuoted(r, i-T*A-T)
	default:
		p.checkErrors(r)
	}
	return r
}

func (p *c16) checkOther(r *core.CaseResult, t *c16tmpl) {
	if t.kind != "echo" && t.kind != "where" {
		return
	}
	vals := []any{int64(0), int64(1), int64(-1), int64(42), int64(1) << 53, -(int64(1) << 53), 0.0, 1.5, -0.25, 1e6, 123456.75, true, false, nil,
		// doubles beyond the int64 range, tiny ones, negative zero; the ends of the int64 range
		9223372036854775808.0, -9223372036854775808.0, 1e19, -1e19, 1e21, 1.5e300, math.MaxFloat64, 1e-7, -2.5e-10, 5e-324, math.Copysign(0, -1),
		int64(math.MaxInt64), int64(math.MinInt64)}
	for _, v := range vals {
		sig := func(mode string) string { return fmt.Sprintf("C16|%s|%T|%s", t.name, v, mode) }
		cs := map[string]any{"template": t.sql, "args": []any{v}}
		s, err, pan := sanitizeNoPanic(t.sql, v)
		r.Execs++
		if pan != "" || err != nil {
			r.Fail(sig("sanitize-failed"), fmt.Sprintf("SanitizeSQL(%q, %v): %v %s", t.sql, v, err, pan), cs)
			continue
		}
		if t.kind != "echo" {
			if _, _, perr := maskAndLiterals(s); perr != nil {
				r.Fail(sig("unparsable"), fmt.Sprintf("%q does not parse: %v", s, perr), cs)
			}
			continue
		}
		out := gq.Run(map[string]any{}, s)
		r.Execs++
		if out.Failed() {
			r.Fail(sig("exec-"+out.Status()), fmt.Sprintf("%q failed: %v %s", s, out.Err, out.Panic), cs)
			continue
		}
		var want any = v
		if n, ok := v.(int64); ok {
			want = float64(n)
		}
		if got, w := gq.Render(out.Rows), gq.Render([]any{map[string]any{"v": want}}); got != w {
			r.Fail(sig("wrong-result"), fmt.Sprintf("%q (argument %v) returned %s, want %s", s, v, got, w), cs)
		}
		r.Nontrivial = true
	}
}

func (p *c16) checkQuoted(r *core.CaseResult, qi int) {
	q := c16Quoted[qi]
	var argsList []string
	for _, a := range p.alpha {
		argsList = append(argsList, a)
		for _, b := range p.alpha {
			argsList = append(argsList, a+b)
		}
	}
	for _, arg := range argsList {
		sig := func(mode string) string { return "C16|quoted:" + q.name + "|" + c16Class(arg) + "|" + mode }
		cs := map[string]any{"template": q.sql, "args": []any{arg}}
		s, err, pan := sanitizeNoPanic(q.sql, arg)
		r.Execs++
		if pan != "" || err != nil {
			r.Fail(sig("sanitize-failed"), fmt.Sprintf("SanitizeSQL(%q, %q): %v %s", q.sql, arg, err, pan), cs)
			continue
		}
		// the expected text: only the live (last) $1 replaced; compare through the parser
		live := strings.LastIndex(q.sql, "$1")
		if strings.Contains(q.name, "comment") {
			live = strings.Index(q.sql, "$1 AS v")
		}
		if strings.HasPrefix(q.name, "adjacent") {
			live = strings.Index(q.sql, "$1")
		}
		ref := q.sql[:live] + "'ZZP1ZZ'" + q.sql[live+2:]
		wantMask, wantLits, rerr := maskAndLiterals(ref)
		if rerr != nil {
			r.Fail("C16|harness|template", fmt.Sprintf("template %q does not parse: %v", ref, rerr), nil)
			return
		}
		gotMask, gotLits, perr := maskAndLiterals(s)
		if perr != nil {
			r.Fail(sig("unparsable"), fmt.Sprintf("SanitizeSQL(%q, %q) = %q does not parse: %v", q.sql, arg, s, perr), cs)
			continue
		}
		bad := gotMask != wantMask || len(gotLits) != len(wantLits)
		for k := 0; !bad && k < len(wantLits); k++ {
			w := wantLits[k].Val
			if w == "ZZP1ZZ" {
				w = arg
			}
			if gotLits[k].Val != w {
				bad = true
			}
		}
		if bad {
			r.Fail(sig("quoted-placeholder-substituted"), fmt.Sprintf("SanitizeSQL(%q, %q) = %q: parses to %q with literals %v; expected only the unquoted placeholder to be replaced (%q)", q.sql, arg, s, gotMask, litVals(gotLits), wantMask), cs)
			continue
		}
		r.Nontrivial = true
		r.Outcomes = append(r.Outcomes, q.name)
	}
}

func litVals(ls []*sqlparser.Literal) []string {
	var out []string
	for _, l := range ls {
		out = append(out, l.Val)
	}
	return out
}

func (p *c16) checkErrors(r *core.CaseResult) {
	type ec struct {
		name, tmpl string
		args       []any
	}
	for _, c := range []ec{
		{"missing", "SELECT $1 AS v FROM dual", nil},
		{"missing-second", "SELECT $1 AS v, $2 AS w FROM dual", []any{"a"}},
		{"unused", "SELECT $1 AS v FROM dual", []any{"a", "b"}},
		{"unused-all", "SELECT 1 AS v FROM dual", []any{"a"}},
		{"dollar-zero", "SELECT $0 AS v FROM dual", []any{"a"}},
		{"dollar-zero-no-args", "SELECT $0 AS v FROM dual", nil},
		{"huge-index", "SELECT $99999999999999999999 AS v FROM dual", []any{"a"}},
		// placeholder numbers around the ends of the 32- and 64-bit ranges (a counter that wraps)
		{"index-2^31", "SELECT $2147483648 AS v FROM dual", []any{"a"}},
		{"index-2^32", "SELECT $4294967296 AS v FROM dual", []any{"a"}},
		{"index-2^32+1", "SELECT $4294967297 AS v FROM dual", []any{"a"}},
		{"index-2^63-1", "SELECT $9223372036854775807 AS v FROM dual", []any{"a"}},
		{"index-2^63", "SELECT $9223372036854775808 AS v FROM dual", []any{"a"}},
		{"index-2^63+1", "SELECT $9223372036854775809 AS v FROM dual", []any{"a"}},
		{"index-2^64-1", "SELECT $18446744073709551615 AS v FROM dual", []any{"a"}},
		{"index-2^64", "SELECT $18446744073709551616 AS v FROM dual", []any{"a"}},
		{"index-2^64+1", "SELECT $18446744073709551617 AS v FROM dual", []any{"a"}},
		{"index-2^64+1-two-args", "SELECT $18446744073709551617 AS v, $2 AS w FROM dual", []any{"a", "b"}},
		{"unsupported-type", "SELECT $1 AS v FROM dual", []any{struct{}{}}},
		{"repeated-placeholder-with-surplus-argument", "SELECT $1 AS a, $1 AS b FROM dual", []any{"first", "second"}},
		{"repeated-placeholder-with-gap", "SELECT $1 AS a, $3 AS b, $1 AS c FROM dual", []any{"x", "y", "z"}},
		{"repeated-placeholder-three-times-two-unused", "SELECT $2 AS a, $2 AS b, $2 AS c FROM dual", []any{"x", "y", "z"}},
		{"gap-only", "SELECT $2 AS a FROM dual", []any{"x", "y"}},
	} {
		_, err, pan := sanitizeNoPanic(c.tmpl, c.args...)
		r.Execs++
		if pan != "" {
			r.Fail("C16|errors|"+c.name+"|panic", fmt.Sprintf("SanitizeSQL(%q, %v) panicked: %s", c.tmpl, c.args, pan), map[string]any{"template": c.tmpl, "args": fmt.Sprint(c.args)})
			continue
		}
		if err == nil {
			r.Fail("C16|errors|"+c.name+"|accepted", fmt.Sprintf("SanitizeSQL(%q, %v) succeeded; an error is required", c.tmpl, c.args), map[string]any{"template": c.tmpl, "args": fmt.Sprint(c.args)})
			continue
		}
		r.Nontrivial = true
	}
	// a placeholder may be repeated: every occurrence receives the same argument
	if s, err, pan := sanitizeNoPanic("SELECT $1 AS a, $2 AS b, $1 AS c FROM dual", "x'y", int64(7)); err != nil || pan != "" {
		r.Fail("C16|repeated-placeholder|rejected", fmt.Sprintf("a repeated placeholder with an exact argument list was rejected: %v %s", err, pan), nil)
	} else {
		o := gq.Run(map[string]any{}, s)
		r.Execs++
		if got, want := outcome(o), gq.Render([]any{map[string]any{"a": "x'y", "b": 7.0, "c": "x'y"}}); got != want {
			r.Fail("C16|repeated-placeholder|wrong-result", fmt.Sprintf("%q returned %s, want %s", s, got, want), nil)
		}
	}
	p.checkSequences(r)
}

// checkSequences: SanitizeSQL is a function of its arguments only.  Every rejected call (each
// error kind, with text already emitted before the failure) followed by every accepted call: the
// accepted call's output must be what it was before any call had been rejected.
func (p *c16) checkSequences(r *core.CaseResult) {
	type call struct {
		tmpl string
		args []any
	}
	good := []call{
		{"SELECT $1 AS v FROM dual", []any{"good"}},
		{"SELECT $1 AS v FROM dual", []any{"it's \\ here"}},
		{"SELECT id FROM t WHERE name = $1 AND id > $2", []any{"n", int64(0)}},
		{"SELECT $2 AS w, $1 AS v FROM dual", []any{1.5, true}},
		{"SELECT 1 AS one FROM dual", nil},
	}
	bad := []call{
		{"SELECT $1 AS v FROM dual -- ", []any{"evil", "extra"}},
		{"SELECT 'x' AS a, $1 AS v, $2 AS w FROM dual", []any{"evil"}},
		{"SELECT $1 AS v, $0 AS z FROM dual", []any{"evil"}},
		{"SELECT $1 AS v, $2 AS w FROM dual", []any{"evil", struct{}{}}},
		{"SELECT $3 AS v FROM dual", []any{"evil"}},
	}
	base := make([]string, len(good))
	for i, g := range good {
		s, err, pan := sanitizeNoPanic(g.tmpl, g.args...)
		r.Execs++
		if err != nil || pan != "" {
			r.Fail("C16|sequence|baseline", fmt.Sprintf("SanitizeSQL(%q, %v) failed: %v %s", g.tmpl, g.args, err, pan), nil)
			return
		}
		base[i] = s
	}
	// prepared commands: a Command obtained from NewQuery stays what it is while other templates are
	// parsed and sanitized (every ordered pair of templates, each command used twice)
	for i1, g1 := range good {
		for i2, g2 := range good {
			func() {
				defer func() {
					if rec := recover(); rec != nil {
						r.Fail("C16|sequence|prepared-command-panics", fmt.Sprintf("NewQuery(%q) / NewQuery(%q): %v", g1.tmpl, g2.tmpl, rec), nil)
					}
				}()
				c1, err1 := sanitize.NewQuery(g1.tmpl)
				c2, err2 := sanitize.NewQuery(g2.tmpl)
				sanitizeNoPanic(bad[(i1+i2)%len(bad)].tmpl, bad[(i1+i2)%len(bad)].args...)
				r.Execs += 3
				if err1 != nil || err2 != nil {
					r.Fail("C16|sequence|prepared-command-rejected", fmt.Sprintf("NewQuery(%q): %v; NewQuery(%q): %v", g1.tmpl, err1, g2.tmpl, err2), nil)
					return
				}
				for use := 0; use < 2; use++ {
					s1, e1 := c1.Sanitize(g1.args...)
					s2, e2 := c2.Sanitize(g2.args...)
					r.Execs += 2
					if e1 != nil || e2 != nil || s1 != base[i1] || s2 != base[i2] {
						r.Fail("C16|sequence|prepared-command-changed", fmt.Sprintf("c1 := NewQuery(%q); c2 := NewQuery(%q); c1.Sanitize(%v) = %q (%v), c2.Sanitize(%v) = %q (%v); SanitizeSQL gives %q and %q", g1.tmpl, g2.tmpl, g1.args, s1, e1, g2.args, s2, e2, base[i1], base[i2]), map[string]any{"first": g1.tmpl, "second": g2.tmpl})
						return
					}
				}
			}()
		}
	}
	// one Command, a rejected Sanitize call (surplus / missing / unsupported argument), then an accepted one
	for gi, g := range good {
		func() {
			defer func() {
				if rec := recover(); rec != nil {
					r.Fail("C16|sequence|command-reuse-panics", fmt.Sprintf("NewQuery(%q): %v", g.tmpl, rec), nil)
				}
			}()
			c, err := sanitize.NewQuery(g.tmpl)
			if err != nil {
				return
			}
			for _, badArgs := range [][]any{append(append([]any{}, g.args...), "surplus"), nil, {struct{}{}, struct{}{}, struct{}{}}} {
				if len(badArgs) == len(g.args) {
					continue
				}
				if _, berr := c.Sanitize(badArgs...); berr == nil {
					continue
				}
				s1, e1 := c.Sanitize(g.args...)
				r.Execs += 2
				if e1 != nil || s1 != base[gi] {
					r.Fail("C16|sequence|command-reuse-after-rejection", fmt.Sprintf("c := NewQuery(%q); c.Sanitize(%v) is rejected; then c.Sanitize(%v) = %q (%v); SanitizeSQL gives %q", g.tmpl, badArgs, g.args, s1, e1, base[gi]), map[string]any{"template": g.tmpl})
					return
				}
			}
		}()
	}
	for round := 0; round < 3; round++ {
		for bi, b := range bad {
			for gi, g := range good {
				_, berr, bpan := sanitizeNoPanic(b.tmpl, b.args...)
				s, err, pan := sanitizeNoPanic(g.tmpl, g.args...)
				r.Execs += 2
				if bpan != "" || berr == nil {
					r.Fail("C16|sequence|rejected-call", fmt.Sprintf("SanitizeSQL(%q, %v): expected an error, got %v %s", b.tmpl, b.args, berr, bpan), nil)
					continue
				}
				if pan != "" || err != nil || s != base[gi] {
					r.Fail("C16|sequence|output-depends-on-earlier-call", fmt.Sprintf("after the rejected call SanitizeSQL(%q, %v), SanitizeSQL(%q, %v) returns %q (%v %s); before it returned %q", b.tmpl, b.args, g.tmpl, g.args, s, err, pan, base[gi]), map[string]any{"rejected_template": b.tmpl, "template": g.tmpl, "bad_index": bi})
					continue
				}
				r.Nontrivial = true
			}
		}
	}
}

func (p *c16) Meta() core.Meta {
	return core.Meta{
		Rule:        "string arguments: for each of 6 templates (echo, WHERE =, WHERE = AND, IN list with 2 placeholders, two select items, function arguments) every string of length 1..3 (thorough 4) over the 18-symbol alphabet {a ' \\ \" ` - # / * ; space NUL newline % $ 1 é and the lone byte 0xE9 (ill-formed UTF-8)} plus classic injection payloads: sanitized text must parse, have the template's statement shape with one string literal per placeholder whose value is the argument, and return through Exec exactly the rows a literal comparison selects; int64/float64/bool/NULL boundary values echo; 17 quoted contexts ($1 inside '...', '...''...', '...\\'...', \"...\", `...`, --, #, /* */, behind a backtick / double-quoted identifier that ends in a backslash, directly behind a live placeholder, in a literal glued to a word ending in e) leave the quoted $1 alone; missing / unused / $0 / overflow / unsupported-type arguments are errors, not panics; every rejected call followed by every accepted call leaves the accepted call's output unchanged (5 x 5 sequences, 3 rounds); Commands prepared with NewQuery keep their template while other templates are parsed and sanitized (every ordered pair, each used twice). non-trivial = the argument contains a character that is special in the dialect",
		Assumptions: []string{"the dialect is the one genql.Parse accepts (MySQL: backslash escapes in string literals, backtick identifiers, double-quoted strings, # and -- comments)", "statement shape = sqlparser.String of the statement with every literal masked"},
		Bounds:      map[string]any{"alphabet": len(p.alpha), "max_len": p.maxLen, "templates": len(c16Templates), "quoted_contexts": len(c16Quoted)},
		Exhaustive:  true,
	}
}
