package props

import (
	"fmt"
	"strings"

	"github.com/vedadiyan/genql"
	"github.com/vedadiyan/genql/vrt"
	"verif/harness/core"
	"verif/harness/gq"
	. "verif/harness/sqlm"
)

// C03: GROUP BY partitions the rows that passed WHERE; aggregates cover exactly their group;
// whole-table aggregates honour WHERE; every aggregate call is computed from its own argument;
// group order = first appearance, on every run (every map iteration order).

type c03case struct {
	group  []string // nil: no GROUP BY (all-aggregate select list)
	list   int
	where  int
	having int
	order  bool // explore map iteration orders (on a subset of tables)
	limit  int  // LIMIT on the grouped / aggregated result (-1: none)
}

type c03 struct {
	tier   string
	cases  []c03case
	tables [][]any
	sub    []int // tables used by the map-order cases
}

func init() { core.Register("C03", func() core.Prop { return &c03{} }) }

func (p *c03) ID() string { return "C03" }

type c03list struct {
	name  string
	keys  bool // grouping columns first
	star  bool
	items []Item
}

var c03Lists = []c03list{
	{name: "count", keys: true, items: []Item{{E: Agg{"COUNT", ""}, As: "c"}}},
	{name: "sum-two-columns", keys: true, items: []Item{{E: Agg{"SUM", "v"}, As: "s"}, {E: Agg{"SUM", "w"}, As: "s2"}}},
	{name: "min-max-two-columns", keys: true, items: []Item{{E: Agg{"MIN", "v"}, As: "mn"}, {E: Agg{"MAX", "v"}, As: "mx"}, {E: Agg{"MAX", "w"}, As: "mx2"}, {E: Agg{"MIN", "w"}, As: "mn2"}}},
	{name: "avg-count", keys: true, items: []Item{{E: Agg{"AVG", "h"}, As: "av"}, {E: Agg{"COUNT", ""}, As: "c"}, {E: Agg{"COUNT", "h"}, As: "ch"}}},
	{name: "star", keys: true, star: true},
	{name: "aggregates-only", keys: false, items: []Item{{E: Agg{"COUNT", ""}, As: "c"}, {E: Agg{"SUM", "v"}, As: "s"}}},
	{name: "same-function-nested-columns", keys: true, items: []Item{{E: Agg{"SUM", "o.v"}, As: "s"}, {E: Agg{"SUM", "p.v"}, As: "s2"}, {E: Agg{"MAX", "p.v"}, As: "mx2"}, {E: Agg{"MAX", "o.v"}, As: "mx"}}},
	{name: "column-names-differing-in-case", keys: true, items: []Item{{E: Agg{"SUM", "v"}, As: "s"}, {E: Agg{"SUM", "V"}, As: "s2"}, {E: Agg{"MAX", "V"}, As: "mx2"}, {E: Agg{"MAX", "v"}, As: "mx"}, {E: Agg{"COUNT", "V"}, As: "c2"}, {E: Agg{"COUNT", "v"}, As: "c"}}},
	{name: "same-call-twice", keys: true, items: []Item{{E: Agg{"SUM", "v"}, As: "s"}, {E: Agg{"COUNT", ""}, As: "c"}, {E: Agg{"SUM", "v"}, As: "s3"}, {E: Agg{"SUM", "h"}, As: "sh"}}},
}

var c03Wheres = []Expr{
	nil,
	Cmp{"=", Col{"h"}, Lit{V: 1.0}},
	Cmp{">", Col{"h"}, Lit{V: 5.0}},
	Is{X: Col{"g"}, What: "NOT NULL"},
	Or{Cmp{"=", Col{"h"}, Lit{V: 2.0}}, Is{X: Col{"v"}, What: "NULL"}},
}

var c03Havings = []Expr{
	nil,
	Cmp{">", Agg{"COUNT", ""}, Lit{V: 1.0}},
	Cmp{">", Agg{"SUM", "h"}, Lit{V: 2.0}},
	And{Cmp{"=", Agg{"MIN", "h"}, Lit{V: 1.0}}, Cmp{"<", Agg{"COUNT", ""}, Lit{V: 3.0}}},
}

func (p *c03) Init(tier string) {
	p.tier = tier
	// m: a grouping column of mixed kinds whose values print alike (1 / "1", NULL / "<nil>", true / "true")
	// n: a column with more than 8 distinct values (only in the two larger tables)
	groups := [][]string{nil, {"g"}, {"h"}, {"g", "h"}, {"h", "g"}, {"m"}, {"m", "h"}, {"n"}, {"n", "h"}}
	for _, g := range groups {
		for li := range c03Lists {
			if g == nil && c03Lists[li].star {
				continue
			}
			for wi := range c03Wheres {
				for hi := range c03Havings {
					if g == nil && hi != 0 {
						continue
					}
					p.cases = append(p.cases, c03case{group: g, list: li, where: wi, having: hi, limit: -1})
					// LIMIT applies to the groups / to the single aggregate row, never to the rows the
					// aggregates range over
					if (li == 0 || li == 1 || li == 5) && wi <= 1 && hi <= 1 {
						for _, lim := range []int{0, 1, 2} {
							p.cases = append(p.cases, c03case{group: g, list: li, where: wi, having: hi, limit: lim})
						}
					}
				}
			}
		}
	}
	// map-order cases: grouped queries, every list, two WHEREs, two HAVINGs
	for _, g := range groups[1:] {
		for li := range c03Lists {
			for _, wi := range []int{0, 3} {
				for _, hi := range []int{0, 1} {
					p.cases = append(p.cases, c03case{group: g, list: li, where: wi, having: hi, order: true, limit: -1})
				}
			}
		}
	}
	arch := []map[string]any{
		{"g": "a", "h": 1.0, "v": 1.0, "w": 2.0, "m": 1.0, "V": 10.0},
		{"g": "b", "h": 1.0, "v": 2.0, "w": 1.0, "m": "1", "V": 30.0},
		{"g": "a", "h": 2.0, "v": nil, "w": 1.0, "m": nil, "V": 20.0},
		{"g": nil, "h": 2.0, "v": -2.0, "w": nil, "m": "<nil>", "V": nil},
		// a member whose aggregate inputs are all negative or zero
		{"g": "b", "h": 2.0, "v": -1.0, "w": 0.0, "m": true, "V": -50.0},
		{"g": nil, "h": 1.0, "v": nil, "w": 1.0, "m": "true", "V": 40.0},
	}
	maxRows := 3
	if tier == "thorough" {
		maxRows = 4
	}
	var rec func(cur []int)
	rec = func(cur []int) {
		rows := []any{}
		for i, k := range cur {
			row := gq.CloneMap(arch[k])
			row["id"] = float64(i)
			// the same values once more under two objects whose inner key has the same name
			row["o"] = map[string]any{"v": row["v"]}
			row["p"] = map[string]any{"v": row["w"]}
			rows = append(rows, row)
		}
		p.tables = append(p.tables, rows)
		// subset for map-order exploration: 3- and 4-row tables with distinct archetypes in a
		// "rotating" pattern (several groups, every grouping set splits them differently)
		if len(cur) >= 3 {
			distinct := true
			for i := range cur {
				for j := 0; j < i; j++ {
					if cur[i] == cur[j] {
						distinct = false
					}
				}
			}
			if distinct && (len(cur) == 4 || cur[0] < cur[1]) && len(p.sub) < 60 && (cur[0]+2*cur[1]+cur[2])%3 == 0 {
				p.sub = append(p.sub, len(p.tables)-1)
			}
		}
		if len(cur) == maxRows {
			return
		}
		for k := range arch {
			rec(append(append([]int{}, cur...), k))
		}
	}
	rec(nil)
	// one larger table (every archetype several times, in a fixed irregular order)
	{
		rows := []any{}
		for i := 0; i < 37; i++ {
			row := gq.CloneMap(arch[(i*5+i/4)%len(arch)])
			row["id"] = float64(i)
			row["o"] = map[string]any{"v": row["v"]}
			row["p"] = map[string]any{"v": row["w"]}
			row["n"] = float64(i % 11)
			rows = append(rows, row)
		}
		p.tables = append(p.tables, rows)
	}
	// a table with 10 distinct values of n (and of (n, h)), two of them occurring twice: also explored
	// under every map iteration order within the bound
	{
		rows := []any{}
		for i := 0; i < 12; i++ {
			row := gq.CloneMap(arch[(i*5+i/4)%len(arch)])
			row["id"] = float64(i)
			row["o"] = map[string]any{"v": row["v"]}
			row["p"] = map[string]any{"v": row["w"]}
			row["n"] = float64(i % 10)
			row["h"] = float64(i%10%2 + 1)
			rows = append(rows, row)
		}
		p.tables = append(p.tables, rows)
		p.sub = append(p.sub, len(p.tables)-1)
	}
}

func (p *c03) NumCases() int { return len(p.cases) + 2 }

func (p *c03) sel(c *c03case) *Select {
	l := &c03Lists[c.list]
	var items []Item
	if l.keys {
		for _, g := range c.group {
			items = append(items, Item{E: Col{g}})
		}
	}
	if l.star {
		items = append(items, Item{Star: true})
	}
	items = append(items, l.items...)
	s := NewSelect("t", items...)
	s.Where = c03Wheres[c.where]
	s.GroupBy = c.group
	s.Having = c03Havings[c.having]
	s.Limit = c.limit
	return s
}

func (p *c03) Describe(i int) any {
	if i == len(p.cases)+1 {
		return map[string]any{"kind": "an execution that fails in an aggregate (v = \"n/a\" in row k), the caller repairs the row in place, the same Query is executed again: 5 queries x 4 rows x 4 repairs; the second execution must equal a fresh query"}
	}
	if i == len(p.cases) {
		return map[string]any{"kind": "rows changed in place between two executions of one query: 7 grouped / whole-table queries x every single edit (5 rows x 8 edits of g, h, v); the second execution must equal a fresh query"}
	}
	c := &p.cases[i]
	d := map[string]any{"query": p.sel(c).SQL()}
	if c.order {
		d["tables"] = fmt.Sprintf("%d tables of 3-4 distinct rows, every map iteration order within the deviation bound", len(p.sub))
	} else {
		d["tables"] = fmt.Sprintf("all %d tables of <= %d rows over 6 archetypes (g in {a,b,NULL}, h in {1,2}, v,w in {1,2,NULL})", len(p.tables), map[string]int{"quick": 3, "thorough": 4}[p.tier])
	}
	return d
}

type c03ref struct {
	rows   []string // rendered expected output rows, in order
	groups int
	ok     bool
}

// reference evaluates the query on rows; ok == false when some part is unspecified.
func (p *c03) reference(c *c03case, rows []any) c03ref {
	env := &Env{}
	kept, ok := Filter(rows, c03Wheres[c.where], env)
	if !ok {
		return c03ref{}
	}
	l := &c03Lists[c.list]
	type grp struct {
		key     []any
		members []map[string]any
	}
	var groups []*grp
	if c.group == nil {
		g := &grp{}
		for _, r := range kept {
			g.members = append(g.members, r.(map[string]any))
		}
		groups = append(groups, g)
	} else {
		for _, r := range kept {
			m := r.(map[string]any)
			key := make([]any, len(c.group))
			for i, k := range c.group {
				key[i] = m[k]
			}
			var found *grp
			for _, g := range groups {
				same := true
				for i := range key {
					if g.key[i] != key[i] {
						same = false
					}
				}
				if same {
					found = g
					break
				}
			}
			if found == nil {
				found = &grp{key: key}
				groups = append(groups, found)
			}
			found.members = append(found.members, m)
		}
	}
	out := c03ref{ok: true}
	for _, g := range groups {
		genv := &Env{Members: g.members}
		grow := map[string]any{}
		for i, k := range c.group {
			grow[k] = g.key[i]
		}
		if h := c03Havings[c.having]; h != nil {
			v, ok := Eval(h, grow, genv)
			b, isBool := v.(bool)
			if !ok || !isBool {
				return c03ref{}
			}
			if !b {
				continue
			}
		}
		row := map[string]any{}
		if l.keys {
			for k, v := range grow {
				row[k] = v
			}
		}
		if l.star {
			for k, v := range grow {
				row[k] = v
			}
			ms := make([]any, len(g.members))
			for i, m := range g.members {
				ms[i] = m
			}
			row["*"] = ms
		}
		for _, it := range l.items {
			v, ok := Eval(it.E, grow, genv)
			if !ok {
				return c03ref{}
			}
			row[it.As] = v
		}
		out.rows = append(out.rows, gq.Render(row))
		out.groups++
	}
	if c.limit >= 0 && len(out.rows) > c.limit {
		out.rows = out.rows[:c.limit]
	}
	return out
}

func (p *c03) sig(c *c03case, mode string) string {
	g := "none"
	if c.group != nil {
		g = strings.Join(c.group, ",")
	}
	w, h := "none", "none"
	if c.where != 0 {
		w = "yes"
	}
	if c.having != 0 {
		h = "yes"
	}
	if c.limit >= 0 {
		h += "|limit"
	}
	return fmt.Sprintf("C03|group=%s|list=%s|where=%s|having=%s|%s", g, c03Lists[c.list].name, w, h, mode)
}

func (p *c03) RunCase(i int) *core.CaseResult {
	defer withNoise()()
	r := &core.CaseResult{}
	defer withUsage(r, "C03")()
	if i == len(p.cases) {
		runChangedC03(r)
		return r
	}
	if i == len(p.cases)+1 {
		runFailedThenRepairedC03(r)
		return r
	}
	c := &p.cases[i]
	sql := p.sel(c).SQL()
	if c.order {
		p.runOrder(r, c, sql)
		return r
	}
	for _, rows := range p.tables {
		ref := p.reference(c, rows)
		if !ref.ok {
			r.Unspecified++
			continue
		}
		doc := map[string]any{"t": gq.Clone(rows)}
		out := gq.Run(doc, sql)
		r.Execs++
		cs := map[string]any{"sql": sql, "doc": map[string]any{"t": rows}}
		if out.Failed() || out.GPanic != "" {
			r.Fail(p.sig(c, out.Status()), fmt.Sprintf("%s on %s: ended with %s: %v%s; reference: %v", sql, gq.Render(rows), out.Status(), out.Err, out.Panic, ref.rows), cs)
			continue
		}
		got := gq.RenderRows(out.Rows)
		if ref.groups > 1 || (c.group == nil && len(rows) > 1) {
			r.Nontrivial = true
		}
		r.Outcomes = append(r.Outcomes, fmt.Sprintf("%d groups of %d rows", len(got), len(rows)))
		if gq.SameSeq(got, ref.rows) {
			// the clause functions the property is anchored in, called one after the other on the
			// rows of the table, are Exec
			if c.limit < 0 {
				step, problem := c03Stepwise(map[string]any{"t": gq.Clone(rows)}, sql)
				r.Execs++
				if problem != "" {
					r.Fail(p.sig(c, "clause-by-clause|problem"), fmt.Sprintf("%s on %s: %s", sql, gq.Render(rows), problem), cs)
				} else if !gq.SameSeq(step, got) {
					r.Fail(p.sig(c, "clause-by-clause"), fmt.Sprintf("%s on %s: ExecWhere, ExecGroupBy, ExecSelect called one after the other give %v, Exec gives %v", sql, gq.Render(rows), step, got), cs)
				}
			}
			continue
		}
		mode := "wrong-values"
		switch {
		case len(got) != len(ref.rows):
			mode = "wrong-group-count"
		case gq.SameBag(got, ref.rows):
			mode = "group-order"
		}
		r.Fail(p.sig(c, mode), fmt.Sprintf("%s on %s: got %v, reference %v", sql, gq.Render(rows), got, ref.rows), cs)
	}
	return r
}

// runOrder: the output must be the reference sequence under every explored map iteration order.
func (p *c03) runOrder(r *core.CaseResult, c *c03case, sql string) {
	bound := 1
	if p.tier == "thorough" {
		bound = 2
	}
	r.BoundDone = bound
	for _, ti := range p.sub {
		rows := p.tables[ti]
		ref := p.reference(c, rows)
		if !ref.ok {
			r.Unspecified++
			continue
		}
		cs := map[string]any{"sql": sql, "doc": map[string]any{"t": rows}}
		seen := map[string]bool{}
		st := gq.ExploreQuery(vrt.Config{MapOrder: true}, bound, 20000,
			func() (map[string]any, string, []genql.QueryOption) {
				return map[string]any{"t": gq.Clone(rows)}, sql, nil
			},
			func(o *gq.Out, prefix []int32) bool {
				if o.Failed() || o.GPanic != "" {
					r.Fail(p.sig(c, "map-order:"+o.Status()), fmt.Sprintf("%s on %s with map-order choices %v: ended with %s: %v%s", sql, gq.Render(rows), prefix, o.Status(), o.Err, o.Panic), map[string]any{"sql": sql, "doc": cs["doc"], "choices": prefix})
					return false
				}
				got := gq.RenderRows(o.Rows)
				seen[strings.Join(got, ";")] = true
				if !gq.SameSeq(got, ref.rows) {
					mode := "map-order:wrong-values"
					if gq.SameBag(got, ref.rows) {
						mode = "map-order:group-order"
					}
					r.Fail(p.sig(c, mode), fmt.Sprintf("%s on %s with map-order choices %v: got %v, reference %v", sql, gq.Render(rows), prefix, got, ref.rows), map[string]any{"sql": sql, "doc": cs["doc"], "choices": prefix})
					return false
				}
				return true
			})
		r.Execs += st.Execs
		r.Transitions += st.Points + st.Execs
		r.States += int64(len(st.States))
		if st.Capped {
			r.Capped = true
		}
		if st.BoundDone < r.BoundDone {
			r.BoundDone = st.BoundDone
		}
		if st.Execs > 1 {
			r.Nontrivial = true
		}
		r.Count("map_order_execs", st.Execs)
		for k := range seen {
			r.Outcomes = append(r.Outcomes, k)
		}
	}
}

func (p *c03) Meta() core.Meta {
	return core.Meta{
		Rule: "one case per query = (grouping set in {none, g, h, (g,h), (h,g), m, (m,h), n, (n,h)} - n has more than 8 distinct values in the two larger tables, - m holds values of mixed kinds that print alike) x (select list: keys+COUNT(*) | SUM on two columns | the same functions on two nested columns with the same final name | MIN/MAX on two columns | AVG,COUNT(*),COUNT(col) | keys+* | aggregates only | same call twice | the same functions on two columns whose names differ only in case) x (5 WHEREs incl. always-false) x (4 HAVINGs) (a subset also with LIMIT 0/1/2 on the result), each run on every table of <= 3 (thorough 4) rows over 6 archetypes and one table of 37 rows with NULL group keys and NULL aggregate inputs, compared as a sequence with the reference group-by; plus map-order cases: the grouped queries on a table subset under every Go-map iteration order within deviation bound 1 (thorough 2). non-trivial = reference has >= 2 groups (or a whole-table aggregate over >= 2 rows); for map-order cases: more than one iteration order was executed; one changed-between-executions case (7 queries x 5 rows x 8 in-place edits between two executions of one Query: the second execution equals a fresh Query); for reference-checked queries without LIMIT the clause functions ExecWhere / ExecGroupBy / ExecSelect called one after the other equal Exec; one failed-then-repaired case (an execution fails in an aggregate on v = \"n/a\" in row k, the caller repairs the row, the same Query again: 5 queries x 4 rows x 4 repairs against a fresh Query)",
		Assumptions: []string{
			"reference: SUM/MIN/MAX ignore NULL members and are NULL without non-NULL members; AVG and COUNT(col) only on NULL-free columns (abstains otherwise); HAVING only over NULL-free aggregate values",
			"aggregate select items are always aliased (the property fixes no column name for COUNT(*))",
			"map iteration order: all n! orders for n <= 4 keys, else rotations + reversal, at each range site; deviation = one range executed in non-sorted order",
		},
		Bounds:     map[string]any{"queries": len(p.cases), "tables": len(p.tables), "map_order_tables": len(p.sub)},
		Exhaustive: true,
	}
}

// c03Stepwise evaluates a statement through the exported clause functions: WHERE row by row, then
// GROUP BY (with HAVING), then the select list.
func c03Stepwise(doc map[string]any, sql string) (rows []string, problem string) {
	vrt.Run(gq.Seq, nil, func() {
		defer func() {
			if rec := recover(); rec != nil {
				problem = fmt.Sprint("panic: ", rec)
			}
		}()
		stmt, err := genql.Parse(sql)
		if err != nil {
			problem = "Parse: " + err.Error()
			return
		}
		q, err := genql.Prepare(doc, stmt, &genql.Options{})
		if err != nil {
			problem = "Prepare: " + err.Error()
			return
		}
		passed := []any{}
		for _, row := range doc["t"].([]any) {
			m, ok := row.(map[string]any)
			if !ok {
				problem = "row is not an object"
				return
			}
			keep, err := genql.ExecWhere(q, m)
			if err != nil {
				problem = "ExecWhere: " + err.Error()
				return
			}
			if keep {
				passed = append(passed, row)
			}
		}
		groups, err := genql.ExecGroupBy(q, passed)
		if err != nil {
			problem = "ExecGroupBy: " + err.Error()
			return
		}
		out, err := genql.ExecSelect(q, groups)
		if err != nil {
			problem = "ExecSelect: " + err.Error()
			return
		}
		rows = gq.RenderRows(out)
	})
	return
}
