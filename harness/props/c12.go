package props

import (
	"fmt"
	"sort"
	"strings"

	"github.com/vedadiyan/genql"
	"github.com/vedadiyan/genql/vrt"
	"verif/harness/core"
	"verif/harness/gq"
)

// C12: results are plain self-contained data (JSON-representable, acyclic, no engine-internal
// placeholder, no `<-` key) and evaluation is deterministic (equal multiset on every run; equal
// sequence when ORDER BY is total or no grouping / join is involved).
//
// Every expression form is placed in every clause position it may legally occupy; each resulting
// query is executed under every Go-map iteration order within the deviation bound and - when it
// spawns goroutines - every schedule within the preemption bound, and twice in one process.

type c12form struct {
	name   string
	sql    string
	direct bool // only meaningful as a direct select-list item (ASYNC slot, FUSE, SETVAR)
	spawns bool
}

var c12Forms = []c12form{
	{name: "number", sql: "1"},
	{name: "fraction", sql: "1.5"},
	{name: "string", sql: "'str'"},
	{name: "null", sql: "NULL"},
	{name: "bool", sql: "true"},
	{name: "column", sql: "a"},
	{name: "path", sql: "`o.p`"},
	{name: "missing", sql: "nope"},
	{name: "object-column", sql: "o"},
	{name: "array-path", sql: "`items[each].q`"},
	{name: "pipe", sql: "`o{p|string}`"},
	{name: "arithmetic", sql: "a + 1"},
	{name: "arithmetic-null", sql: "nope + 1"},
	{name: "unary-minus", sql: "-a"},
	{name: "bitwise", sql: "a | 4"},
	{name: "comparison", sql: "a > 1"},
	{name: "and", sql: "a > 1 AND b = 'x'"},
	{name: "in-list", sql: "a IN (1, 2)"},
	{name: "between", sql: "a BETWEEN 1 AND 2"},
	{name: "like", sql: "b LIKE 'x%'"},
	{name: "is-null", sql: "nope IS NULL"},
	{name: "case-string", sql: "CASE WHEN a > 1 THEN 'big' ELSE 'small' END"},
	{name: "case-number", sql: "CASE WHEN a > 1 THEN a + 1 END"},
	{name: "tuple-strings", sql: "('p', 'q')"},
	{name: "tuple-mixed", sql: "(a + 1, 'q', a)"},
	{name: "tuple-nested", sql: "((1, 'z'), 2)"},
	{name: "tuple-signed", sql: "(-1, 'x', -a, ~a)"},
	{name: "tuple-case", sql: "(CASE WHEN a > 1 THEN 'big' ELSE 'small' END, -2.5)"},
	{name: "array", sql: "ARRAY(1, 'x', a + 1, NULL)"},
	{name: "array-of-tuple", sql: "ARRAY(('p', 1))"},
	{name: "concat", sql: "CONCAT(b, 'x', a)"},
	{name: "nested-call", sql: "TO_UPPER(CONCAT(b, 'z'))"},
	{name: "first", sql: "FIRST(items)"},
	{name: "unwind", sql: "UNWIND(ARRAY(ARRAY(1, 'x'), a))"},
	{name: "if", sql: "IF(a > 1, 'y', a + 1)"},
	{name: "changetype", sql: "CHANGETYPE(a, 'string')"},
	{name: "changetype-int", sql: "CHANGETYPE('12', 'integer')"},
	{name: "hash", sql: "HASH(b, 'md5')"},
	{name: "encode", sql: "ENCODE(a, 'hex')"},
	{name: "daterange", sql: "DATERANGE('2024-01-01', b)"},
	{name: "constant", sql: "CONSTANT('c')"},
	{name: "getvar", sql: "GETVAR('k')"},
	{name: "substr", sql: "SUBSTR(b, 0, 1)"},
	{name: "subquery", sql: "(SELECT q FROM items)"},
	{name: "subquery-aggregate", sql: "(SELECT COUNT(*) AS n FROM items)"},
	{name: "subquery-star", sql: "(SELECT * FROM items WHERE q > 0)"},
	{name: "subquery-enclosing", sql: "(SELECT c FROM `<-u`)"},
	{name: "subquery-dual-star", sql: "(SELECT * FROM dual)"},
	{name: "exists", sql: "EXISTS (SELECT q FROM items WHERE q > 0)"},
	{name: "once", sql: "ONCE.HONCE()"},
	{name: "scoped", sql: "SCOPED.CONCAT(b, 'y')"},
	{name: "async", sql: "ASYNC.HMID(a)", direct: true, spawns: true},
	{name: "async-fast", sql: "ASYNC.HFAST(a)", direct: true, spawns: true},
	{name: "spinasync", sql: "SPINASYNC.HMID(a)", direct: true, spawns: true},
	{name: "setvar", sql: "SETVAR('k', a)", direct: true},
	{name: "fuse", sql: "FUSE(o)", direct: true},
	{name: "report-when", sql: "REPORT_WHEN(a > 1, 'seen')", direct: true},
	// AWAIT defers the evaluation of its argument to the end of the query: the deferred value goes
	// through the same slot as an ASYNC result
	{name: "await-column", sql: "AWAIT(a)", direct: true},
	{name: "await-object", sql: "AWAIT(o)", direct: true},
	{name: "await-setvar", sql: "AWAIT(SETVAR('k', a))", direct: true},
	{name: "await-fuse", sql: "AWAIT(FUSE(o))", direct: true},
	{name: "await-report-when", sql: "AWAIT(REPORT_WHEN(a > 1, 'seen'))", direct: true},
	{name: "await-subquery", sql: "AWAIT((SELECT q FROM items))", direct: true},
}

type c12pos struct {
	name  string
	sql   string // %s = the form
	multi bool   // grouping or join involved: only the multiset is fixed
}

var c12Positions = []c12pos{
	{name: "select-item", sql: "SELECT %s AS v, id FROM t"},
	{name: "select-item-with-star", sql: "SELECT %s AS v, * FROM t"},
	{name: "function-argument", sql: "SELECT ARRAY(%s, 1) AS v FROM t"},
	{name: "nested-function-argument", sql: "SELECT FIRST(ARRAY(%s)) AS v FROM t"},
	{name: "tuple-element", sql: "SELECT (%s, 2) AS v FROM t"},
	{name: "case-branch", sql: "SELECT CASE WHEN a > 1 THEN %s ELSE %s END AS v FROM t"},
	{name: "if-argument", sql: "SELECT IF(a > 1, %s, NULL) AS v FROM t"},
	{name: "where-operand", sql: "SELECT id, %s AS v FROM t WHERE (%s) IS NOT NULL OR a > 0"},
	{name: "in-subquery-select", sql: "SELECT id, (SELECT %s AS w FROM `<-u` WHERE c > 1) AS v FROM t"},
	{name: "cte", sql: "WITH c AS (SELECT %s AS v, id FROM t) SELECT * FROM c"},
	{name: "derived", sql: "SELECT * FROM (SELECT %s AS v, id FROM t) AS d"},
	{name: "union", sql: "SELECT %s AS v FROM t UNION ALL SELECT %s AS v FROM t WHERE a > 1"},
	{name: "distinct", sql: "SELECT DISTINCT %s AS v FROM t"},
	{name: "order-by", sql: "SELECT %s AS v, id FROM t ORDER BY id DESC LIMIT 2"},
	{name: "group-star", sql: "SELECT b, *, COUNT(*) AS n FROM (SELECT %s AS v, b FROM t) AS d GROUP BY `d.b`", multi: true},
	{name: "join-side", sql: "SELECT * FROM (SELECT %s AS v, b FROM t) x JOIN u y ON x.b = y.b", multi: true},
	{name: "nested-from", sql: "SELECT %s AS v FROM m"},
}

// queries that are not (form, position) products
var c12Extra = []struct {
	name, sql string
	multi     bool
	spawns    bool
}{
	{"aggregates", "SELECT COUNT(*) AS c, SUM(a) AS s, MIN(a) AS mn, MAX(a) AS mx, AVG(a) AS av FROM t", false, false},
	{"group-by", "SELECT b, COUNT(*) AS c, SUM(a) AS s, * FROM t GROUP BY b", false, false},
	{"group-by-two", "SELECT b, a, COUNT(*) AS c FROM t GROUP BY b, a ORDER BY b, a", false, false},
	{"group-by-two-many-groups", "SELECT n, h, COUNT(*) AS c, SUM(n) AS s FROM w GROUP BY n, h", false, false},
	{"group-by-many-groups-star", "SELECT n, *, COUNT(*) AS c FROM w GROUP BY n", false, false},
	{"join", "SELECT * FROM t x JOIN u y ON x.b = y.b", true, false},
	{"left-join", "SELECT * FROM t x LEFT JOIN u y ON x.a < y.c", true, false},
	{"hash-join-ordered", "SELECT `x.id` AS id, `y.c` AS c FROM t x HASH_JOIN u y ON x.b = y.b ORDER BY id, c", false, false},
	{"parallel-join", "SELECT * FROM t x PARALLEL JOIN u y ON x.b = y.b", true, true},
	{"parallel-left-join", "SELECT * FROM t x PARALLEL LEFT JOIN u y ON x.a <= y.c", true, true},
	{"join-into", "SELECT * FROM t x JOIN u y ON x.b = y.b INTO j", true, false},
	{"cte-in-scope-dual-star", "WITH c AS (SELECT id FROM t) SELECT * FROM dual", false, false},
	{"cte-in-scope-star", "WITH c AS (SELECT id FROM t), d AS (SELECT id FROM c) SELECT *, (SELECT * FROM dual) AS everything FROM d", false, false},
	{"cte-unused", "WITH c AS (SELECT id FROM t) SELECT id, (SELECT * FROM `<-`) AS doc FROM t", false, false},
	{"back-reference", "SELECT id, `<-` AS back FROM t WHERE a IN (SELECT c FROM `<-u`)", false, false},
	{"distinct-subquery-star", "SELECT DISTINCT (SELECT q FROM items) AS s, * FROM t", false, false},
	{"exists-star", "SELECT * FROM t WHERE EXISTS (SELECT q FROM items WHERE q >= a)", false, false},
	{"mix-object", "SELECT `mix=>o` AS flat, `distinct=>items[each].q` AS qs FROM t", false, false},
	{"async-in-derived", "SELECT * FROM (SELECT ASYNC.HMID(a) AS m, id FROM t) AS d", false, true},
	{"async-in-cte", "WITH c AS (SELECT ASYNC.HMID(a) AS m, id FROM t) SELECT m, id FROM c", false, true},
	{"async-in-subquery", "SELECT id, (SELECT ASYNC.HMID(q) AS m FROM items) AS s FROM t", false, true},
	{"await", "SELECT AWAIT(m) AS w FROM (SELECT ASYNC.HMID(a) AS m FROM t) AS d", false, true},
	{"global", "SELECT GLOBAL.FIRST((SELECT id FROM t)) AS g, id FROM t", false, false},
	{"dual", "SELECT 1 + 1 AS two, 'x' AS s, ('a', 1) AS tup, ARRAY() AS e FROM dual", false, false},
	{"union-distinct", "SELECT b FROM t UNION SELECT b FROM u ORDER BY b", false, false},
	{"selector-bad-later-stage", "SELECT id, `items::[zz]` AS tail FROM t", false, false},
	{"selector-bad-range", "SELECT id FROM t WHERE `items[(0:1:2)]` IS NULL", false, false},
	{"selector-bad-from", "SELECT id FROM `t::[(x:1)]`", false, false},
	{"distinct-two-columns", "SELECT DISTINCT b, 'k' AS c, (a > 0) AS pos FROM t", false, false},
	{"distinct-object-column", "SELECT DISTINCT FIRST(ARRAY(`o.r`)) AS r, b FROM t", false, false},
	{"distinct-nested-objects", "SELECT DISTINCT `o.r` AS r, ARRAY(b, 1) AS arr, b, 1 AS one FROM t", false, false},
	{"union-two-columns", "SELECT b, 1 AS one FROM t UNION SELECT b, 1 AS one FROM t UNION SELECT b, 1 AS one FROM u", false, false},
	{"distinct-star-duplicates", "SELECT DISTINCT * FROM (SELECT b, 'x' AS k FROM t) AS d", false, false},
	{"union-async", "SELECT ASYNC.HMID(a) AS m FROM t UNION ALL SELECT a AS m FROM t", false, true},
	{"async-nested-from-filtered", "SELECT ASYNC.HMID(a) AS m, id FROM m WHERE HFAST(a) > 0", false, true},
	// a deferred item that resolves to a marker in front of other deferred items
	{"await-marker-then-async", "SELECT AWAIT(SETVAR('k', a)) AS s, ASYNC.HMID(a) AS e, b FROM t", false, true},
	{"await-fuse-then-await", "SELECT AWAIT(FUSE(o)) AS f, AWAIT(b) AS w, AWAIT(a) AS x FROM t", false, false},
	{"await-report-then-getvar", "SELECT AWAIT(REPORT_WHEN(a > 1, 'seen')) AS r, AWAIT(GETVAR('k')) AS g, id FROM t", false, false},
	// deferred work below two levels of query copies: three array dimensions, a join inside a join side
	{"async-nested-from-3d", "SELECT ASYNC.HMID(a) AS e, id FROM cube", false, true},
	{"async-three-way-join", "SELECT * FROM (SELECT ASYNC.HMID(a) AS e, b FROM t) x JOIN u y ON x.b = y.b JOIN u z ON y.b = z.b", true, false},
	{"limit-offset", "SELECT id FROM t LIMIT 2 OFFSET 1", false, false},
	{"union-limit-offset", "SELECT id FROM t UNION ALL SELECT c AS id FROM u LIMIT 3 OFFSET 2", false, false},
	{"derived-limit-offset", "SELECT * FROM (SELECT id FROM t LIMIT 2 OFFSET 1) AS d", false, false},
	{"union-async-both", "SELECT ASYNC.HMID(a) AS m, id FROM t UNION SELECT ASYNC.HFAST(a) AS m, id FROM t", false, true},
}

type c12case struct {
	sql    string
	sig    string
	multi  bool
	spawns bool
	sched  int // preemption bound for goroutine-spawning queries
}

type c12 struct {
	tier  string
	cases []c12case
	bound int
}

func init() { core.Register("C12", func() core.Prop { return &c12{} }) }

func (p *c12) ID() string { return "C12" }

func (p *c12) Init(tier string) {
	p.tier = tier
	p.bound = 1
	if tier == "thorough" {
		p.bound = 2
	}
	for _, f := range c12Forms {
		for pi, pos := range c12Positions {
			if f.direct && pi > 1 && pos.name != "cte" && pos.name != "derived" && pos.name != "order-by" && pos.name != "union" && pos.name != "distinct" && pos.name != "nested-from" {
				continue
			}
			sql := strings.ReplaceAll(pos.sql, "%s", f.sql)
			cse := c12case{sql: sql, sig: f.name + "@" + pos.name, multi: pos.multi, spawns: f.spawns}
			if f.spawns && pos.name == "nested-from" {
				cse.sched = 2
			}
			p.cases = append(p.cases, cse)
		}
	}
	for _, e := range c12Extra {
		cse := c12case{sql: e.sql, sig: e.name, multi: e.multi, spawns: e.spawns}
		if strings.Contains(e.name, "nested-from") {
			cse.sched = 2
		}
		p.cases = append(p.cases, cse)
	}
}

func (p *c12) NumCases() int { return len(p.cases) + 2 }

func (p *c12) Describe(i int) any {
	if i == len(p.cases)+1 {
		return map[string]any{"kind": "a Query whose rows carry deferred items (ASYNC / AWAIT in the statement itself, in a derived table, a CTE, a join operand, a row-scoped subquery, below a multi-dimensional FROM) executed again after an execution that failed at fault point k (every k): plain data only, and the rows of a fresh query"}
	}
	if i == len(p.cases) {
		return map[string]any{"kind": "a function registered again between two evaluations: 7 queries x 3 x 3 registration calls, with an options value shared by two prepared queries and with one query executed twice; both must equal a fresh query"}
	}
	c := p.cases[i]
	return map[string]any{"query": c.sql, "form@position": c.sig, "explored": fmt.Sprintf("3 documents; every map iteration order within %d deviation(s); schedules within 1 preemption for goroutine-spawning queries; executed twice in one process", p.bound)}
}

// manyGroups: 12 rows with 10 distinct values of n (and of (n, h)), two of them occurring twice.
func manyGroups() []any {
	rows := []any{}
	for i := 0; i < 12; i++ {
		rows = append(rows, map[string]any{"id": float64(i), "n": float64(i % 10), "h": float64(i%10%2 + 1)})
	}
	return rows
}

func c12Docs() []func() map[string]any {
	row := func(id, a float64, b string, qs ...float64) map[string]any {
		items := []any{}
		for _, q := range qs {
			items = append(items, map[string]any{"q": q})
		}
		return map[string]any{"id": id, "a": a, "b": b, "o": map[string]any{"p": a * 10, "r": map[string]any{"s": b}}, "items": items}
	}
	return []func() map[string]any{
		func() map[string]any {
			return map[string]any{
				"t":    []any{row(0, 1, "x", 1, 2), row(1, 2, "y"), row(2, 3, "x", 0)},
				"u":    []any{map[string]any{"b": "x", "c": 2.0}, map[string]any{"b": "y", "c": 3.0}, map[string]any{"b": "x", "c": 1.0}},
				"m":    []any{[]any{row(0, 1, "x", 1)}, []any{row(1, 2, "y"), row(2, 3, "x", 4)}},
				"w":    manyGroups(),
				"cube": []any{[]any{[]any{row(0, 1, "x", 1)}, []any{row(1, 2, "y")}}},
			}
		},
		func() map[string]any {
			return map[string]any{"t": []any{row(0, 2, "x", 3)}, "u": []any{map[string]any{"b": "x", "c": 2.0}}, "m": []any{[]any{row(0, 2, "x", 3)}}}
		},
		func() map[string]any {
			return map[string]any{"t": []any{}, "u": []any{}, "m": []any{}}
		},
	}
}

func (p *c12) RunCase(i int) *core.CaseResult {
	r := &core.CaseResult{}
	defer withUsage(r, "C12")()
	if i == len(p.cases) {
		runChangedC12(r)
		return r
	}
	if i == len(p.cases)+1 {
		runReexecC12(r)
		return r
	}
	c := &p.cases[i]
	r.BoundDone = p.bound
	for di, mk := range c12Docs() {
		// the selector-cache mutex is a scheduling point only where the library's own goroutines
		// evaluate the same fresh selectors side by side (PARALLEL joins)
		cfg := vrt.Config{MapOrder: true, Sched: c.spawns, Quiet: !strings.Contains(c.sql, "PARALLEL")}
		vrt.SetQuiet(genql.VerifSelectorMutex())
		gq.MaxSched, gq.MaxMap = 1, p.bound
		bound := p.bound + 1
		if c.sched > 1 {
			// one copy of the query per inner array, each awaited through its parent: the windows
			// between "copy adopted" and "copy finished" need two preemptions to be entered
			gq.MaxSched = c.sched
			if bound < c.sched {
				bound = c.sched
			}
		}
		var first []string
		var firstSorted []string
		have := false
		var firstErr string
		cs := func(prefix []int32) map[string]any {
			return map[string]any{"sql": c.sql, "doc": mk(), "choices": prefix}
		}
		st := gq.ExploreQuery(cfg, bound, 400000,
			func() (map[string]any, string, []genql.QueryOption) {
				hOnceCounter = 0
				return mk(), c.sql, []genql.QueryOption{genql.WithVars(map[string]any{"k": 7.0}), genql.WithConstants(map[string]any{"c": 1.0}), genql.UnReportedErrors(func(error) {})}
			},
			func(o *gq.Out, prefix []int32) bool {
				if o.Panic != "" || o.GPanic != "" {
					// crashes are C10's matter; determinism of an outcome still is ours
					return true
				}
				if o.Err != nil {
					if !have {
						have, firstErr = true, "error"
					} else if firstErr != "error" {
						r.Fail("C12|"+c.sig+"|nondeterministic-failure", fmt.Sprintf("%s (document %d) fails under choices %v (%v) but succeeded under the default choices", c.sql, di, prefix, o.Err), cs(prefix))
						return false
					}
					return true
				}
				if s := gq.Plain(o.Rows); s != "" {
					kind := "not-plain"
					switch {
					case strings.Contains(s, `key "<-"`):
						kind = "back-reference-key"
					case strings.Contains(s, "cycle"):
						kind = "cycle"
					case strings.Contains(s, "genql."):
						kind = "internal-type"
					case strings.Contains(s, "*"):
						kind = "pointer"
					case strings.Contains(s, "func"):
						kind = "func"
					}
					r.Fail("C12|"+c.sig+"|"+kind, fmt.Sprintf("%s (document %d, choices %v): result is not plain data: %s; rows: %s", c.sql, di, prefix, s, gq.Render(o.Rows)), cs(prefix))
					return false
				}
				got := gq.RenderRows(o.Rows)
				sorted := append([]string{}, got...)
				sort.Strings(sorted)
				if !have {
					have, first, firstSorted, firstErr = true, got, sorted, ""
					return true
				}
				if firstErr == "error" {
					r.Fail("C12|"+c.sig+"|nondeterministic-failure", fmt.Sprintf("%s (document %d) succeeds under choices %v but failed under the default choices", c.sql, di, prefix), cs(prefix))
					return false
				}
				if !gq.SameSeq(sorted, firstSorted) {
					r.Fail("C12|"+c.sig+"|different-rows", fmt.Sprintf("%s (document %d): rows under choices %v are %v, under the default choices %v", c.sql, di, prefix, got, first), cs(prefix))
					return false
				}
				if !c.multi && !gq.SameSeq(got, first) {
					r.Fail("C12|"+c.sig+"|different-order", fmt.Sprintf("%s (document %d): row order under choices %v is %v, under the default choices %v (no grouping / join involved, or ORDER BY is total)", c.sql, di, prefix, got, first), cs(prefix))
					return false
				}
				return true
			})
		gq.MaxSched, gq.MaxMap = 0, 0
		r.Execs += st.Execs
		r.Transitions += st.Transitions
		r.States += int64(len(st.States))
		if st.Capped {
			r.Capped = true
		}
		if st.BoundDone >= 0 && st.BoundDone-1 < r.BoundDone && len(r.Viol) == 0 && st.BoundDone < bound {
			r.BoundDone = st.BoundDone
		}
		if firstErr == "" && have && len(first) > 0 {
			r.Nontrivial = true
		}
		if have && firstErr == "error" {
			// determinism of failure: the same query on an equal input fails again (and again)
			for k := 0; k < 2; k++ {
				o2 := gq.Run(mk(), c.sql, genql.WithVars(map[string]any{"k": 7.0}), genql.WithConstants(map[string]any{"c": 1.0}), genql.UnReportedErrors(func(error) {}))
				r.Execs++
				if o2.Err == nil && o2.Panic == "" {
					r.Fail("C12|"+c.sig+"|fails-only-the-first-time", fmt.Sprintf("%s (document %d) failed on the first evaluation but evaluation #%d on an equal input returned %s", c.sql, di, k+2, gq.Render(o2.Rows)), cs(nil))
					break
				}
			}
		}
		if have && firstErr == "" {
			r.Outcomes = append(r.Outcomes, strings.Join(first, ";"))
			// twice in one process, without resetting anything in between
			hOnceCounter = 0
			o2 := gq.Run(mk(), c.sql, genql.WithVars(map[string]any{"k": 7.0}), genql.WithConstants(map[string]any{"c": 1.0}), genql.UnReportedErrors(func(error) {}))
			r.Execs++
			if o2.Err == nil && o2.Panic == "" {
				got := gq.RenderRows(o2.Rows)
				sorted := append([]string{}, got...)
				sort.Strings(sorted)
				if !gq.SameSeq(sorted, firstSorted) || (!c.multi && !gq.SameSeq(got, first)) {
					r.Fail("C12|"+c.sig+"|second-run-differs", fmt.Sprintf("%s (document %d): a second evaluation on an equal input returned %v, the first %v", c.sql, di, got, first), cs(nil))
				}
			} else {
				r.Fail("C12|"+c.sig+"|second-run-differs", fmt.Sprintf("%s (document %d): a second evaluation failed (%v %s), the first returned %v", c.sql, di, o2.Err, o2.Panic, first), cs(nil))
			}
		}
	}
	return r
}

func (p *c12) Meta() core.Meta {
	return core.Meta{
		Rule:        "one case per query = (63 expression forms: literals, columns, paths, pipes, arithmetic, comparisons, IN / BETWEEN / LIKE / IS, CASE, tuples incl. nested, ARRAY, nested calls, every built-in family, subqueries incl. star / enclosing / dual-star, EXISTS, ONCE / SCOPED / ASYNC / SPINASYNC / SETVAR / FUSE / REPORT_WHEN) x (17 clause positions: select item, with star, function argument, nested argument, tuple element, CASE branch, IF argument, WHERE operand, subquery select list, CTE, derived table, UNION branch, DISTINCT, ORDER BY + LIMIT, GROUP BY with star, join side, nested FROM), plus 33 further queries (aggregates, group-by, every join strategy incl. INTO and PARALLEL, CTE thunks in scope of a star, back-references, DISTINCT over a subquery plus star, ASYNC inside derived tables / CTEs / subqueries, AWAIT, GLOBAL, dual, UNION); each on 3 documents under every Go-map iteration order within 1 (thorough 2) deviations, every schedule within 1 preemption when goroutines are spawned, and a second time in the same process. Oracle: reflective walk (only maps, slices, strings, numbers, booleans, nil; no pointer / func / chan / engine type / `<-` key / cycle); equal multisets across all explored executions, equal sequences unless grouping or a join is involved. non-trivial = the query returned rows; one function-registered-again case (5 queries x 3 x 3 registration calls, one Options value shared by two prepared queries / one Query executed twice, against a fresh query); one re-execution case (10 queries whose rows carry deferred items x every fault point of the outermost statement: the second execution of the same Query returns plain data and the rows of a fresh Query)",
		Assumptions: []string{"ASYNC / SPINASYNC / SETVAR / FUSE / REPORT_WHEN are exercised only as direct select-list items (and through CTE / derived table / ORDER BY), as the property states for async slots", "non-finite floats count as numbers", "a panic is C10's matter"},
		Bounds:      map[string]any{"forms": len(c12Forms), "positions": len(c12Positions), "queries": len(p.cases), "map_order_deviations": p.bound, "preemptions": 1},
		Exhaustive:  true,
	}
}
