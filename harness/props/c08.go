package props

import (
	"fmt"
	"strings"

	"github.com/vedadiyan/genql"
	"github.com/vedadiyan/genql/vrt"
	"verif/harness/core"
	"verif/harness/gq"
)

// C08: a multi-dimensional FROM applies the query inside every inner array; mix=> + one query =
// the concatenation of the inner results.  Oracle: implementation vs implementation (the same
// query run directly on each inner array).

var c08Queries = []string{
	"SELECT * FROM {T}",
	"SELECT id FROM {T}",
	"SELECT id FROM {T} WHERE a > 1",
	"SELECT id FROM {T} WHERE a > 100",
	"SELECT id, a FROM {T} WHERE b = 'x'",
	"SELECT id FROM {T} WHERE a >= 1 AND b = 'y'",
	"SELECT id FROM {T} WHERE a = 1 OR b = 'y'",
	"SELECT id FROM {T} WHERE NOT a = 2",
	"SELECT id FROM {T} WHERE a IN (1, 3)",
	"SELECT id FROM {T} WHERE a BETWEEN 2 AND 3",
	"SELECT id FROM {T} WHERE b LIKE 'x%'",
	"SELECT id FROM {T} WHERE n IS NULL",
	"SELECT a + 1 AS b FROM {T}",
	"SELECT a + 1 AS a FROM {T}",
	"SELECT a + 1 AS a, id FROM {T} WHERE a > 1",
	"SELECT id AS x, id AS y FROM {T}",
	"SELECT id, a * 2 AS d FROM {T} WHERE a >= 2 AND b = 'x'",
	"SELECT CASE WHEN a > 1 THEN 'big' ELSE 'small' END AS size, id FROM {T}",
	"SELECT -a AS neg, id FROM {T} WHERE a < 3",
	"SELECT *, a + 1 AS z FROM {T} WHERE a > 1",
	"SELECT b, a FROM {T} WHERE b != 'x'",
	"SELECT id, n FROM {T}",
	"SELECT id FROM {T} WHERE a + 1 > 2",
	"SELECT CONCAT(b, id) AS k FROM {T} WHERE a <= 2",
	// a whole-table aggregate evaluated per row: it ranges over the inner array the row belongs to
	"SELECT id FROM {T} WHERE a >= AVG(a)",
	"SELECT id, MAX(a) - a AS below, COUNT(*) AS n FROM {T}",
	"SELECT id FROM {T} WHERE a = MIN(a) OR a = MAX(a)",
	// options and functions that read the query's options inside the inner arrays
	"SELECT id FROM {T} WHERE a > GETVAR('min')",
	"SELECT id, GETVAR('tag') AS tag, CONSTANT('c') AS c FROM {T} WHERE a >= CONSTANT('c')",
	"SELECT SETVAR('last', id), GETVAR('last') AS last FROM {T}",
	// operands that navigate back to the document from inside the inner arrays
	"SELECT id FROM {T} WHERE a >= `<-.lo`",
	"SELECT id, `<-.tag` AS t FROM {T} WHERE b = `<-.tag` OR a > 2",
	// columns qualified with the table's own name (a path into the row: NULL on this data, for the
	// one-dimensional and the nested source alike)
	// deferred values: every inner array's calls are awaited before the result is handed out
	"SELECT id, ASYNC.HMID(a) AS d FROM {T}",
	"SELECT id, AWAIT(a + 1) AS w FROM {T} WHERE a > 1",
	"SELECT m.a AS qa, id FROM {T}",
	"SELECT id FROM {T} WHERE m.a > 1 OR a > 2",
}

func c08Opts(vars map[string]any) []genql.QueryOption {
	return []genql.QueryOption{genql.WithVars(vars), genql.WithConstants(map[string]any{"c": 2.0})}
}

type c08 struct {
	vars map[string]any // the variable map shared by the per-inner-array reference executions of one document
	tier string
	docs [][]any // the value of m (arrays of arrays ...)
}

func init() { core.Register("C08", func() core.Prop { return &c08{} }) }

func (p *c08) ID() string { return "C08" }

func c08Row(k int, id int) map[string]any {
	arch := []map[string]any{
		{"a": 1.0, "b": "x", "n": nil},
		{"a": 2.0, "b": "y", "n": 1.0},
		{"a": 3.0, "b": "xy", "n": nil},
	}
	r := gq.CloneMap(arch[k])
	r["id"] = float64(id)
	return r
}

func (p *c08) Init(tier string) {
	p.tier = tier
	// inner arrays: every sequence of <= 2 rows over 3 archetypes (13)
	var inners [][]int
	var rec func(cur []int)
	rec = func(cur []int) {
		inners = append(inners, append([]int{}, cur...))
		if len(cur) == 2 {
			return
		}
		for k := 0; k < 3; k++ {
			rec(append(cur, k))
		}
	}
	rec(nil)
	mkInner := func(ks []int, base int) []any {
		out := []any{}
		for i, k := range ks {
			out = append(out, c08Row(k, base+i))
		}
		return out
	}
	maxOuter := 2
	if tier == "thorough" {
		maxOuter = 3
	}
	// depth 2: every outer array of 1..maxOuter inner arrays
	var rec2 func(cur []int)
	rec2 = func(cur []int) {
		if len(cur) > 0 {
			m := []any{}
			for j, ii := range cur {
				m = append(m, mkInner(inners[ii], j*10))
			}
			p.docs = append(p.docs, m)
		}
		if len(cur) == maxOuter {
			return
		}
		for ii := range inners {
			rec2(append(append([]int{}, cur...), ii))
		}
	}
	rec2(nil)
	// depth 3: nestings of <= 2 x 2 x 2 over a reduced inner set
	small := []int{0, 1, 4, 7, 12}
	for _, a := range small {
		for _, b := range small {
			for _, c := range small {
				p.docs = append(p.docs, []any{[]any{mkInner(inners[a], 0), mkInner(inners[b], 10)}, []any{mkInner(inners[c], 20)}})
			}
		}
	}
	// further shapes: levels that hold exactly as many arrays as their parent has elements (opening
	// such a level does not change the length), empty arrays next to deeper ones, depth 4
	for _, a := range small {
		for _, b := range small {
			x, y := func() any { return mkInner(inners[a], 0) }, func() any { return mkInner(inners[b], 10) }
			p.docs = append(p.docs,
				[]any{[]any{x()}, []any{y()}},
				[]any{[]any{}, []any{x(), y()}},
				[]any{[]any{x(), y()}, []any{}},
				[]any{[]any{[]any{x()}}, []any{[]any{y()}}},
				[]any{[]any{[]any{x()}, []any{y()}}})
		}
		p.docs = append(p.docs, []any{[]any{mkInner(inners[a], 0)}}, []any{[]any{[]any{mkInner(inners[a], 0)}}})
	}
	// mixed depth: rows next to inner arrays
	for _, a := range small[:3] {
		for _, b := range small[:3] {
			row := mkInner(inners[1], 40)
			if len(row) == 0 {
				continue
			}
			p.docs = append(p.docs,
				[]any{row[0], mkInner(inners[a], 0), mkInner(inners[b], 10)},
				[]any{mkInner(inners[a], 0), row[0]},
				[]any{mkInner(inners[a], 0), row[0], []any{mkInner(inners[b], 10)}})
		}
	}
	p.docs = append(p.docs, []any{[]any{}, []any{[]any{}}}, []any{})
}

func (p *c08) NumCases() int { return len(c08Queries)*6 + 1 }

func (p *c08) Describe(i int) any {
	if i == len(c08Queries)*6 {
		return map[string]any{"kind": "the nested source changed between two executions of one Query: an inner array (at depth 2 and 3) replaced by another one, emptied, a row edited in place, the inner arrays swapped - 5 queries x 3 documents x 9 changes; the second execution must equal a fresh query"}
	}
	kind := []string{"nested result vs per-inner-array executions", "mix=> + one query vs concatenation of the inner results",
		"nested result over the ranged source m[(1:end)] vs per-inner-array executions", "mix=>m[(1:end)] + one query vs concatenation of the inner results",
		"nested result over m[keep=>(1:end)] vs per-inner-array executions", "mix=>m[keep=>(1:end)] + one query vs concatenation of the inner results"}[i/len(c08Queries)]
	return map[string]any{"query": c08Queries[i%len(c08Queries)], "kind": kind, "documents": fmt.Sprintf("%d documents: every outer array of <= %d inner arrays (each <= 2 rows over 3 archetypes, ragged, empty) and depth-3 nestings", len(p.docs), map[string]int{"quick": 2, "thorough": 3}[p.tier])}
}

// expected computes the nested result by running q directly on every innermost array of rows.
func (p *c08) expected(r *core.CaseResult, q string, v []any, flat *[]any) (any, bool) {
	isRows := true
	for _, x := range v {
		if _, ok := x.(map[string]any); !ok {
			isRows = false
		}
	}
	if isRows && len(v) > 0 || len(v) == 0 {
		// the same statement, with the table name bound to one inner array
		o := gq.Run(map[string]any{"m": gq.Clone(any(v)), "lo": 2.0, "tag": "x"}, strings.ReplaceAll(q, "{T}", "m"), c08Opts(p.vars)...)
		r.Execs++
		if o.Failed() {
			return nil, false
		}
		*flat = append(*flat, o.Rows...)
		return any(o.Rows), true
	}
	out := []any{}
	for _, x := range v {
		sub, ok := x.([]any)
		if !ok {
			// mixed depth: a row next to inner arrays is filtered and projected where it sits
			row, isRow := x.(map[string]any)
			if !isRow {
				return nil, false
			}
			o := gq.Run(map[string]any{"m": []any{gq.Clone(any(row))}, "lo": 2.0, "tag": "x"}, strings.ReplaceAll(q, "{T}", "m"), c08Opts(p.vars)...)
			r.Execs++
			if o.Failed() {
				return nil, false
			}
			*flat = append(*flat, o.Rows...)
			out = append(out, o.Rows...)
			continue
		}
		e, ok := p.expected(r, q, sub, flat)
		if !ok {
			return nil, false
		}
		out = append(out, e)
	}
	return out, true
}

// mixedDepth: some array of the source holds rows next to inner arrays.
func mixedDepth(v []any) bool {
	rows, arrays := 0, 0
	for _, x := range v {
		if sub, ok := x.([]any); ok {
			arrays++
			if mixedDepth(sub) {
				return true
			}
		} else {
			rows++
		}
	}
	return rows > 0 && arrays > 0
}

func depthOf(v any) int {
	if a, ok := v.([]any); ok {
		d := 0
		for _, x := range a {
			if dx := depthOf(x); dx > d {
				d = dx
			}
		}
		return d + 1
	}
	return 0
}

func (p *c08) RunCase(i int) *core.CaseResult {
	defer withNoise()()
	r := &core.CaseResult{}
	defer withUsage(r, "C08")()
	if i == len(c08Queries)*6 {
		runChangedC08(r)
		return r
	}
	q := c08Queries[i%len(c08Queries)]
	variant := i / len(c08Queries)
	mix := variant == 1 || variant == 3 || variant == 5
	// variants 2 and 3: the source is a range of the outer array with an open end, `m[(1:end)]`;
	// variants 4 and 5: the same with keep=>, `m[keep=>(1:end)]`
	ranged := variant >= 2
	keep := variant >= 4
	if mix && (strings.Contains(q, "AVG(") || strings.Contains(q, "MAX(") || strings.Contains(q, "MIN(") || strings.Contains(q, "COUNT(")) {
		// a whole-table aggregate ranges over the flattened source under mix=>: the concatenation law
		// is a statement about per-row filters and projections only
		return r
	}
	shape := "filter"
	if !strings.Contains(q, "WHERE") {
		shape = "projection"
	} else if strings.Contains(q, " AS ") {
		shape = "filter+projection"
	}
	genql.VerifResetSelectorCache()
	for _, full := range p.docs {
		m := full
		if ranged {
			if len(full) < 1 {
				continue
			}
			m = full[1:]
		}
		if mixedDepth(full) && (strings.Contains(q, "AVG(") || strings.Contains(q, "MAX(") || strings.Contains(q, "MIN(") || strings.Contains(q, "COUNT(")) {
			continue // what a whole-table aggregate ranges over at a level that mixes rows and arrays is not specified
		}
		var flat []any
		p.vars = map[string]any{"min": 1.0, "tag": "x"}
		want, ok := p.expected(r, q, m, &flat)
		if !ok {
			r.Unspecified++
			continue
		}
		if len(m) == 0 && !mix && !ranged {
			continue
		}
		doc := map[string]any{"m": gq.Clone(any(full)), "lo": 2.0, "tag": "x"}
		src, msrc := "m", "`mix=>m`"
		if ranged {
			src, msrc = "`m[(1:end)]`", "`mix=>m[(1:end)]`"
		}
		if keep {
			src, msrc = "`m[keep=>(1:end)]`", "`mix=>m[keep=>(1:end)]`"
		}
		var sql string
		if mix {
			sql = strings.ReplaceAll(q, "{T}", msrc)
			want = any(flat)
			if flat == nil {
				want = []any{}
			}
		} else {
			sql = strings.ReplaceAll(q, "{T}", src)
		}
		o := gq.Run(doc, sql, c08Opts(map[string]any{"min": 1.0, "tag": "x"})...)
		r.Execs++
		got := outcome(o)
		w := gq.Render(want)
		if len(flat) > 0 {
			r.Nontrivial = true
		}
		r.Outcomes = append(r.Outcomes, fmt.Sprintf("depth%d/%d", depthOf(m), len(flat)))
		// selector-cache differential: the nested and the mix=> spelling of the same source are
		// evaluated alternately in one process; neither may change what the other returns
		if got == w {
			other := strings.ReplaceAll(q, "{T}", msrc)
			if mix {
				other = strings.ReplaceAll(q, "{T}", src)
			}
			gq.Run(map[string]any{"m": gq.Clone(any(full)), "lo": 2.0, "tag": "x"}, other, c08Opts(map[string]any{"min": 1.0, "tag": "x"})...)
			again := outcome(gq.Run(map[string]any{"m": gq.Clone(any(full)), "lo": 2.0, "tag": "x"}, sql, c08Opts(map[string]any{"min": 1.0, "tag": "x"})...))
			r.Execs += 2
			if again != got {
				r.Fail("C08|cache|nested-and-mix-interfere", fmt.Sprintf("%s on m=%s returned %s, but %s after %s had been evaluated in the same process", sql, gq.Render(full), got, again, other), map[string]any{"sql": sql, "then": other, "doc": map[string]any{"m": full}})
			}
		}
		// the same statement built from the exported pieces (Parse + Prepare with zero-valued Options):
		// for queries that read no option it must return the same
		if got == w && !strings.Contains(q, "VAR(") && !strings.Contains(q, "CONSTANT(") && !strings.Contains(q, "ASYNC") && !strings.Contains(q, "AWAIT") {
			func() {
				defer func() { recover() }()
				res := vrt.Run(gq.Seq, nil, func() {
					stmt, err := genql.Parse(sql)
					if err != nil {
						return
					}
					pq, err := genql.Prepare(map[string]any{"m": gq.Clone(any(full)), "lo": 2.0, "tag": "x"}, stmt, &genql.Options{})
					var prow []any
					if err == nil {
						prow, err = pq.Exec()
					}
					r.Execs++
					if pg := gq.Render(prow); err != nil || pg != w {
						r.Fail("C08|prepare-path|differs", fmt.Sprintf("%s on m=%s built through Parse + Prepare(doc, stmt, &Options{}) returns %s (%v); New + Exec returns %s", sql, gq.Render(full), pg, err, w), map[string]any{"sql": sql, "doc": map[string]any{"m": full}})
					}
				})
				_ = res
			}()
		}
		if got != w {
			kind := "nested"
			if mix {
				kind = "mix"
			}
			mode := "differs"
			if strings.HasPrefix(got, "error") || strings.HasPrefix(got, "panic") {
				mode = got[:5]
			}
			r.Fail(fmt.Sprintf("C08|%s|%s|depth=%d|%s", kind, shape, depthOf(m), mode), fmt.Sprintf("%s on m=%s returned %s (%v %s); running the query on each inner array gives %s", sql, gq.Render(full), got, o.Err, o.Panic, w), map[string]any{"sql": sql, "doc": map[string]any{"m": full}})
		}
	}
	return r
}

func (p *c08) Meta() core.Meta {
	return core.Meta{
		Rule:        "one case per (query, kind): 36 filter / projection queries (every WHERE operator family, non-idempotent select lists such as a+1 AS a, star plus expression, CASE, function calls, whole-table aggregates evaluated per row, GETVAR / SETVAR / CONSTANT under WithVars and WithConstants, ASYNC and AWAIT items, operands that navigate back to the document with `<-`) run on a FROM path that resolves to arrays of arrays: every outer array of 1..2 (thorough 3) inner arrays, each any sequence of <= 2 rows over 3 archetypes (ragged, empty), plus depth-3 and depth-4 nestings (incl. levels with exactly as many arrays as their parent has elements, and empty arrays next to deeper ones) and mixed-depth sources (rows next to inner arrays); the nested result must equal the per-inner-array executions of the same query, and `mix=>` + one query must equal their concatenation; both also with the source given as a range with an open end (`m[(1:end)]`, `mix=>m[(1:end)]`, and the same with keep=>) over outer arrays of different lengths in one process. non-trivial = some inner result is non-empty; one changed-between-executions case (5 queries x 3 documents x 9 changes of the nested source between two executions of one Query, against a fresh Query)",
		Assumptions: []string{"only WHERE and the select list are claimed for nested sources (the property's statement); ORDER BY / LIMIT / aggregates over nested sources are not exercised"},
		Bounds:      map[string]any{"queries": len(c08Queries), "documents": len(p.docs)},
		Exhaustive:  true,
	}
}
