package props

import (
	"fmt"
	"strings"

	"github.com/vedadiyan/genql"
	"verif/harness/core"
	"verif/harness/gq"
)

// C09: path selectors evaluate per the documented grammar and fail only with errors; evaluation
// never modifies the document.

type c09rec struct {
	text string
	doc  int
	cold string
}

type c09 struct {
	recs   []c09rec
	tier   string
	menu   []selStep // full menu
	small  []selStep // reduced menu for the deepest level in the quick tier
	docs   []func() any
	dnames []string
	nGram  int // number of grammar cases (one per first step x second step)
	alpha  []byte
	blen   int
	nBytes int // number of byte-string cases (one per 2-byte prefix)
}

func init() { core.Register("C09", func() core.Prop { return &c09{} }) }

func (p *c09) ID() string { return "C09" }

func key(k string) selStep  { return selStep{kind: "key", key: k} }
func qkey(k string) selStep { return selStep{kind: "key", key: k, quote: true} }
func idx(keep bool, dims ...selDim) selStep {
	return selStep{kind: "index", keep: keep, dims: dims}
}
func di(i int) selDim    { return selDim{kind: "int", i: i} }
func de() selDim         { return selDim{kind: "each"} }
func dr(b, e int) selDim { return selDim{kind: "range", b: b, e: e} }
func pipe(ps ...selPipe) selStep {
	return selStep{kind: "pipe", pipes: ps}
}

func (p *c09) Init(tier string) {
	p.tier = tier
	p.menu = []selStep{
		key("a"), key("b"), key("c"), key("zz"), qkey("x.y"), qkey("a b"),
		idx(false, di(0)), idx(false, di(1)), idx(false, di(2)), idx(false, di(3)),
		idx(false, di(0), di(0)), idx(false, di(0), di(1)), idx(false, di(1), di(0)), idx(false, di(1), di(2)),
		idx(false, de()), idx(false, de(), di(0)), idx(false, de(), di(1)), idx(false, de(), de()), idx(false, di(0), de()), idx(false, de(), de(), di(0)), idx(false, de(), de(), de()),
		idx(true, de(), di(0)), idx(true, de(), de()), idx(true, di(0)), idx(true, de()), idx(true, di(1), de()),
		idx(false, dr(0, 1)), idx(false, dr(-1, -1)), idx(false, dr(1, -1)), idx(false, dr(-1, 1)), idx(false, dr(0, 2)), idx(false, dr(0, 3)), idx(false, dr(2, 1)), idx(false, dr(1, 5)), idx(false, dr(3, 3)), idx(false, dr(2, 2)),
		idx(false, dr(0, 2), di(0)), idx(false, de(), dr(0, 1)), idx(false, dr(-1, -1), de()), idx(true, dr(0, 1), de()),
		pipe(selPipe{"a", ""}), pipe(selPipe{"a", "string"}), pipe(selPipe{"b", "number"}), pipe(selPipe{"a", "bogus"}), pipe(selPipe{"a", ""}, selPipe{"b", ""}), pipe(selPipe{"a", "string"}, selPipe{"b", ""}), pipe(selPipe{"zz", ""}), pipe(selPipe{"b", "string"}),
		{kind: "bad", key: "[x]"}, {kind: "bad", key: "[(0:1:2)]"}, {kind: "bad", key: "[(begin:x)]"},
		{kind: "cont"},
		// a range followed by further dimensions whose index / bound lies beyond the slice but inside
		// the array the slice was taken from
		idx(false, dr(0, 1), di(1)), idx(true, dr(0, 1), di(2)), idx(false, de(), dr(0, 1), di(2)), idx(false, dr(0, 1), dr(0, 2)), idx(false, dr(1, 2), di(0), di(1)),
	}
	for _, i := range []int{0, 1, 3, 4, 6, 7, 9, 10, 14, 15, 17, 20, 21, 22, 26, 27, 29, 32, 33, 36, 37, 40, 41, 42, 43, 48} {
		p.small = append(p.small, p.menu[i])
	}
	withCap := func(items ...any) []any {
		s := make([]any, len(items), 16)
		copy(s, items)
		// spare capacity holds non-nil garbage: a bound between len and cap must not expose it
		full := s[:cap(s)]
		for i := len(items); i < len(full); i++ {
			full[i] = "PHANTOM"
		}
		return s
	}
	p.docs = []func() any{
		func() any { return map[string]any{"a": 1.0, "b": "2", "x.y": 3.0, "a b": 4.0, "c": true} },
		func() any {
			return map[string]any{"a": map[string]any{"b": map[string]any{"c": 1.0}, "a": "s"}, "b": []any{1.0, 2.0, 3.0}}
		},
		func() any {
			return map[string]any{"a": []any{map[string]any{"a": 1.5, "b": "1"}, map[string]any{"a": 2.0, "b": "x"}, map[string]any{"c": 3.0}}}
		},
		func() any { return map[string]any{"a": []any{[]any{1.0, 2.0}, []any{3.0, 4.0}}, "b": []any{}} },
		func() any {
			return map[string]any{"a": []any{[]any{map[string]any{"a": 1.0, "b": "7"}}, []any{map[string]any{"a": 2.0, "b": "8"}, map[string]any{"a": 3.0, "b": "9"}}}}
		},
		func() any { return map[string]any{"a": []any{}, "b": nil} },
		func() any { return map[string]any{"a": []any{[]any{}, []any{1.0}}, "b": "12.5"} },
		func() any { return map[string]any{"a": "str", "b": 1.5} },
		func() any {
			return map[string]any{"a": []any{[]any{[]any{1.0, 2.0}, []any{3.0}}, []any{[]any{4.0}}}}
		},
		func() any {
			return map[string]any{"a": []any{map[string]any{"a": []any{1.0, 2.0}, "b": "3"}, map[string]any{"a": []any{3.0}, "b": "4"}}}
		},
		func() any { return map[string]any{"a": withCap(1.0, 2.0), "b": withCap(withCap(1.0), withCap())} },
		func() any { return map[string]any{"a": nil, "b": map[string]any{"a": nil}} },
		func() any {
			return map[string]any{"a": []any{[]any{[]any{[]any{1.0}, []any{2.0, 3.0}}}, []any{[]any{[]any{4.0}}}}}
		},
	}
	p.docs = append(p.docs,
		// whole numbers at and beyond 2^53 (still inside the int64 range), numeric text with an exponent
		func() any {
			return map[string]any{"a": 9007199254740992.0, "b": "1e18", "c": 1e18}
		},
		func() any {
			return map[string]any{"a": []any{map[string]any{"a": -9007199254740992.0, "b": "9007199254740993"}, map[string]any{"a": 1e18, "b": "-0.5e1"}, map[string]any{"a": 1152921504606846976.0}}}
		})
	p.docs = append(p.docs,
		// duplicates followed by new values (distinct=> must not compact the document's own array)
		func() any {
			return map[string]any{"a": []any{1.0, 1.0, 2.0, 1.0, 3.0}, "b": []any{[]any{1.0}, []any{1.0}, []any{2.0}}}
		})
	p.dnames = []string{"big-numbers", "big-numbers-in-array", "duplicates", "scalars", "nested-objects", "array-of-objects", "2d", "2d-of-objects-ragged", "empty", "ragged-with-empty", "scalar-where-array-expected", "3d", "objects-with-arrays", "spare-capacity", "nulls", "4d"}
	p.dnames = append(p.dnames[3:], p.dnames[:3]...)
	p.nGram = len(p.menu) * (len(p.menu) + 1)
	p.alpha = []byte("a0.[](){}:|'=>-<")
	p.blen = 4
	if tier == "thorough" {
		p.blen = 5
	}
	p.nBytes = len(p.alpha)*len(p.alpha) + 1
}

func (p *c09) NumCases() int { return p.nGram + 3 + p.nBytes + 2 }

// selectors of grammar case i: first step s1 = menu[i / (n+1)], second step s2 = menu[i % (n+1) - 1]
// (none when 0), then every third step from the (tier-dependent) menu plus the 2-step selector itself.
func (p *c09) gramCase(i int) (s1 selStep, s2 *selStep) {
	n := len(p.menu)
	s1 = p.menu[i/(n+1)]
	if k := i % (n + 1); k > 0 {
		s2 = &p.menu[k-1]
	}
	return
}

func (p *c09) Describe(i int) any {
	switch {
	case i < p.nGram:
		s1, s2 := p.gramCase(i)
		steps := []selStep{s1}
		if s2 != nil {
			steps = append(steps, *s2)
		}
		return map[string]any{"selector_prefix": selText(steps), "then": "itself and every extension by one more step of the menu, also with mix=> / distinct=> / bogus=> in front; on 16 documents; cold cache, warm cache, and after use on another document"}
	case i < p.nGram+3:
		return map[string]any{"kind": "documented examples and keep=> forms"}
	}
	if i == p.nGram+3+p.nBytes {
		return map[string]any{"kind": "cache saturation: all byte strings of length <= 3 (thorough 4) as selectors in one process (4368 / 69904 distinct cache entries), then fresh spellings of 7 grammar selectors must still evaluate per the reference"}
	}
	if i == p.nGram+3+p.nBytes+1 {
		return map[string]any{"kind": "function registry: fn=> applies the function registered under the name at evaluation time - three functions registered in turn under one name (two rounds) x three selector texts; a name registered after a selector using it was rejected"}
	}
	return map[string]any{"kind": fmt.Sprintf("all byte strings of length <= %d over %q with this 2-byte prefix, as selectors on 3 documents: value or error, never a panic; document unchanged", p.blen, string(p.alpha)), "prefix_index": i - p.nGram - 3}
}

func stepKinds(steps []selStep) string {
	var ks []string
	for _, s := range steps {
		k := s.kind
		if s.kind == "index" {
			k = "index"
			if s.keep {
				k = "keep"
			}
			for _, d := range s.dims {
				if d.kind == "range" {
					k += "-range"
					break
				}
			}
		}
		ks = append(ks, k)
	}
	return strings.Join(ks, ".")
}

func (p *c09) checkSel(r *core.CaseResult, steps []selStep) {
	text := selText(steps)
	if strings.HasPrefix(text, "::") || strings.HasSuffix(text, "::") && len(steps) == 1 {
		return
	}
	for di, mk := range p.docs {
		doc := mk()
		before := gq.Render(doc)
		want, werr := refSelect(mk(), steps)
		genql.VerifResetSelectorCache()
		got, err, pan := gq.Reader(doc, text)
		r.Execs++
		cs := map[string]any{"selector": text, "doc": mk()}
		sig := func(mode string) string { return "C09|" + stepKinds(steps) + "|" + mode }
		if pan != "" {
			r.Fail(sig("panic"), fmt.Sprintf("selector %q on %s (%s): panic %s; reference: %s / %v", text, p.dnames[di], before, pan, refShow(want), werr), cs)
			continue
		}
		if after := gq.Render(doc); after != before {
			r.Fail(sig("document-modified"), fmt.Sprintf("selector %q on %s: document changed from %s to %s", text, p.dnames[di], before, after), cs)
		}
		switch {
		case werr != nil && err == nil:
			mode := "no-error"
			if strings.Contains(gq.Render(got), "PHANTOM") {
				mode = "phantom-elements"
			}
			r.Fail(sig(mode), fmt.Sprintf("selector %q on %s (%s): returned %s, reference says error (%v)", text, p.dnames[di], before, gq.Render(got), werr), cs)
			continue
		case werr == nil && err != nil:
			r.Fail(sig("unexpected-error"), fmt.Sprintf("selector %q on %s (%s): error %v, reference value %s", text, p.dnames[di], before, err, refShow(want)), cs)
			continue
		case werr != nil:
			r.Outcomes = append(r.Outcomes, "error")
			// an error is an error every time: warm cache, and after use on another document
			_, err2, pan2 := gq.Reader(mk(), text)
			gq.Reader(p.docs[(di+3)%len(p.docs)](), text)
			_, err3, pan3 := gq.Reader(mk(), text)
			r.Execs += 3
			if pan2 != "" || pan3 != "" || err2 == nil || err3 == nil {
				r.Fail(sig("error-only-once"), fmt.Sprintf("selector %q on %s: error on a cold cache (%v), but warm: %v %s, after another document: %v %s", text, p.dnames[di], err, err2, pan2, err3, pan3), cs)
			}
			continue
		}
		if !selEqual(got, want) {
			r.Fail(sig("wrong-value"), fmt.Sprintf("selector %q on %s (%s): returned %s, reference %s", text, p.dnames[di], before, gq.Render(got), refShow(want)), cs)
			continue
		}
		if want != nil {
			r.Nontrivial = true
		}
		r.Outcomes = append(r.Outcomes, gq.Render(got))
		p.recs = append(p.recs, c09rec{text, di, gq.Render(got)})
		// cache differential: warm evaluation, and evaluation after the selector was used on another document
		got2, err2, pan2 := gq.Reader(mk(), text)
		other := p.docs[(di+3)%len(p.docs)]()
		gq.Reader(other, text)
		got3, err3, pan3 := gq.Reader(mk(), text)
		r.Execs += 3
		if pan2 != "" || pan3 != "" || err2 != nil || err3 != nil || gq.Render(got2) != gq.Render(got) || gq.Render(got3) != gq.Render(got) {
			r.Fail(sig("cache-dependent"), fmt.Sprintf("selector %q on %s: cold %s, warm %s (%v %s), after another document %s (%v %s)", text, p.dnames[di], gq.Render(got), gq.Render(got2), err2, pan2, gq.Render(got3), err3, pan3), cs)
		}
	}
}

func (p *c09) RunCase(i int) *core.CaseResult {
	r := &core.CaseResult{}
	switch {
	case i < p.nGram:
		s1, s2 := p.gramCase(i)
		base := []selStep{s1}
		if s2 != nil {
			base = append(base, *s2)
		}
		p.checkSel(r, base)
		for _, fn := range []string{"mix", "distinct", "bogus"} {
			p.checkSel(r, append([]selStep{{kind: "fn", key: fn}}, base...))
		}
		if s2 == nil {
			p.recs = p.recs[:0]
			return r
		}
		third := p.small
		if p.tier == "thorough" {
			third = p.menu
		}
		for _, s3 := range third {
			p.checkSel(r, append(append([]selStep{}, base...), s3))
		}
		// shared-cache differential: all selectors of this case (they share their first steps)
		// evaluated one after the other on one cache, forwards and backwards, must return what they
		// returned on a cold cache
		genql.VerifResetSelectorCache()
		for pass := 0; pass < 2; pass++ {
			for k := range p.recs {
				rec := p.recs[k]
				if pass == 1 {
					rec = p.recs[len(p.recs)-1-k]
				}
				got, err, pan := gq.Reader(p.docs[rec.doc](), rec.text)
				r.Execs++
				if pan != "" || err != nil || gq.Render(got) != rec.cold {
					r.Fail("C09|cache-shared-between-selectors", fmt.Sprintf("selector %q on %s returned %s on a cold cache but %s (%v %s) after other selectors had been evaluated", rec.text, p.dnames[rec.doc], rec.cold, gq.Render(got), err, pan), map[string]any{"selector": rec.text, "doc": p.docs[rec.doc]()})
					break
				}
			}
		}
		p.recs = p.recs[:0]
	case i < p.nGram+3:
		// documented forms spelled exactly as in the guide
		docs := []func() any{
			func() any {
				return map[string]any{"data": []any{[]any{[]any{1.0, 2.0, 3.0}, []any{4.0, 5.0, 6.0}}, []any{[]any{7.0, 8.0, 9.0}}}, "users": []any{[]any{map[string]any{"name": "n0", "email": "e0"}}, []any{map[string]any{"name": "n1", "email": "e1"}}},
					"a": map[string]any{"b": []any{[]any{1.0, 2.0}, []any{3.0}}, "x": map[string]any{"c": 5.0}}}
			},
		}
		type ex struct {
			text  string
			steps []selStep
		}
		exs := [][]ex{
			{
				{"data[each:each:0]", []selStep{key("data"), idx(false, de(), de(), di(0))}},
				{"data[keep=>0:1:2]", []selStep{key("data"), idx(true, di(0), di(1), di(2))}},
				{"data[keep=>each:each:0]", []selStep{key("data"), idx(true, de(), de(), di(0))}},
			},
			{
				{"users[each:0].name", []selStep{key("users"), idx(false, de(), di(0)), key("name")}},
				{"users[(0:1)]", []selStep{key("users"), idx(false, dr(0, 1))}},
				{"users[each:0:0].email", []selStep{key("users"), idx(false, de(), di(0), di(0)), key("email")}},
			},
			{
				{"data[each].x::[0]", []selStep{key("data"), idx(false, de()), key("x"), {kind: "cont"}, idx(false, di(0))}},
				{"mix=>data[each]", []selStep{{kind: "fn", key: "mix"}, key("data"), idx(false, de())}},
				{"data[keep=>(0:1):each]", []selStep{key("data"), idx(true, dr(0, 1), de())}},
				// three and four stages, a function in the first, a middle and the last one
				{"a::b::[0]", []selStep{key("a"), {kind: "cont"}, key("b"), {kind: "cont"}, idx(false, di(0))}},
				{"a::mix=>b::[1]", []selStep{key("a"), {kind: "cont"}, {kind: "fn", key: "mix"}, key("b"), {kind: "cont"}, idx(false, di(1))}},
				{"a::b::mix=>[(0:2)]", []selStep{key("a"), {kind: "cont"}, key("b"), {kind: "cont"}, {kind: "fn", key: "mix"}, idx(false, dr(0, 2))}},
				{"mix=>a::x::c", []selStep{{kind: "fn", key: "mix"}, key("a"), {kind: "cont"}, key("x"), {kind: "cont"}, key("c")}},
				{"a::b::[each]::distinct=>[0]", []selStep{key("a"), {kind: "cont"}, key("b"), {kind: "cont"}, idx(false, de()), {kind: "cont"}, {kind: "fn", key: "distinct"}, idx(false, di(0))}},
				{"a::x::bogus=>c", []selStep{key("a"), {kind: "cont"}, key("x"), {kind: "cont"}, {kind: "fn", key: "bogus"}, key("c")}},
			},
		}
		for _, e := range exs[i-p.nGram] {
			if got := selText(e.steps); got != e.text {
				r.Fail("C09|harness|render", fmt.Sprintf("generator renders %q for the documented %q", got, e.text), nil)
				continue
			}
			save := p.docs
			saveN := p.dnames
			p.docs, p.dnames = docs, []string{"guide-example"}
			p.checkSel(r, e.steps)
			p.docs, p.dnames = save, saveN
		}
	case i < p.nGram+3+p.nBytes:
		p.runBytes(r, i-p.nGram-3)
	case i == p.nGram+3+p.nBytes:
		p.runSaturation(r)
	default:
		p.runRegistry(r)
	}
	return r
}

// runRegistry: `fn=>` applies the function that is registered under the name when the selector is
// evaluated: registering another function under a name already used by evaluated selectors (and
// registering a name after a selector using it has failed) takes effect for the same selector text.
func (p *c09) runRegistry(r *core.CaseResult) {
	doc := func() any { return map[string]any{"a": []any{1.0, 2.0, 3.0}, "b": map[string]any{"a": []any{4.0}}} }
	first := func(v any) (any, error) {
		if a, ok := v.([]any); ok && len(a) > 0 {
			return a[0], nil
		}
		return nil, nil
	}
	last := func(v any) (any, error) {
		if a, ok := v.([]any); ok && len(a) > 0 {
			return a[len(a)-1], nil
		}
		return nil, nil
	}
	count := func(v any) (any, error) {
		a, _ := v.([]any)
		return float64(len(a)), nil
	}
	sels := []string{"hswap=>a", "hswap=>b.a", "hswap=>a[(0:2)]"}
	refs := [][]float64{{1, 4, 1}, {3, 4, 2}, {3, 1, 2}} // first, last, count
	for round := 0; round < 2; round++ {
		for fi, f := range []func(any) (any, error){first, last, count} {
			genql.RegisterTopLevelFunction("hswap", f)
			for si, sel := range sels {
				got, err, pan := gq.Reader(doc(), sel)
				r.Execs++
				if want := gq.Render(refs[fi][si]); pan != "" || err != nil || gq.Render(got) != want {
					r.Fail("C09|fn|re-registered-function-not-applied", fmt.Sprintf("selector %q after registering function #%d under the name (round %d): returned %s (%v %s), the registered function gives %s", sel, fi, round, gq.Render(got), err, pan, want), map[string]any{"selector": sel, "round": round, "function": fi})
					return
				}
			}
		}
	}
	// a name that is registered only after a selector using it has been rejected
	if _, err, pan := gq.Reader(doc(), "hlate=>a"); err == nil || pan != "" {
		r.Fail("C09|fn|unknown-function-accepted", fmt.Sprintf("hlate=>a with no such function: err=%v panic=%s", err, pan), nil)
		return
	}
	genql.RegisterTopLevelFunction("hlate", count)
	if got, err, pan := gq.Reader(doc(), "hlate=>a"); err != nil || pan != "" || gq.Render(got) != "3" {
		r.Fail("C09|fn|late-registration-not-seen", fmt.Sprintf("hlate=>a after registering hlate: %s (%v %s), want 3", gq.Render(got), err, pan), nil)
		return
	}
	r.Nontrivial = true
}

// runSaturation: the selector cache is process-wide and never evicted.  After several thousand
// distinct selectors have been evaluated in this process, selectors never seen before (fresh
// spellings of grammar selectors) must still evaluate per the reference, and so must old ones.
func (p *c09) runSaturation(r *core.CaseResult) {
	genql.VerifResetSelectorCache()
	n := 0
	var rec func(s string)
	probeNo := 0
	var check func(round int)
	rec = func(s string) {
		if s != "" {
			gq.Reader(p.docs[1](), s)
			r.Execs++
			n++
			// one fresh probe after every flooding selector: whatever the count of distinct selectors
			// at which a cache misbehaves, some probe is evaluated at exactly that count
			probeNo++
			check(100 + probeNo)
		}
		if len(s) == 3 {
			return
		}
		for _, c := range p.alpha {
			rec(s + string(c))
		}
	}
	probes := [][]selStep{
		{key("a"), key("a")}, {key("b"), idx(false, di(1))}, {key("a"), key("zz")}, {key("b"), idx(false, di(7))},
		{key("a"), key("b"), key("c")}, {key("b"), idx(false, dr(0, 2))}, {key("b"), idx(false, de())},
	}
	check = func(round int) {
		for k, steps := range probes {
			if round >= 100 && k != round%len(probes) {
				continue // inside the flood: one probe per step, rotating
			}
			// a spelling that has not been evaluated before: extra blanks between the steps
			pad := strings.Repeat(" ", round%61+1) + strings.Repeat("\t", round/61)
			text := strings.ReplaceAll(selText(steps), ".", pad+".")
			text = strings.ReplaceAll(text, "[", pad+"[")
			want, werr := refSelect(p.docs[1](), steps)
			got, err, pan := gq.Reader(p.docs[1](), text)
			r.Execs++
			switch {
			case pan != "":
				r.Fail("C09|saturation|panic", fmt.Sprintf("after %d distinct selectors, %q panicked: %s", n, text, pan), map[string]any{"selector": text, "distinct_selectors_before": n})
			case (werr != nil) != (err != nil) || (werr == nil && !selEqual(got, want)):
				r.Fail("C09|saturation|wrong-value", fmt.Sprintf("after %d distinct selectors had been evaluated in this process, the fresh selector %q (probe %d) returned %s / %v; reference %s / %v", n, text, k, gq.Render(got), err, refShow(want), werr), map[string]any{"selector": text, "distinct_selectors_before": n, "doc": p.docs[1]()})
			default:
				r.Nontrivial = true
			}
		}
	}
	check(0)
	rec("")
	check(1)
	if p.tier == "thorough" {
		var rec4 func(s string)
		rec4 = func(s string) {
			if len(s) == 4 {
				gq.Reader(p.docs[1](), s)
				r.Execs++
				n++
				return
			}
			for _, c := range p.alpha {
				rec4(s + string(c))
			}
		}
		rec4("")
		check(2)
	}
	r.Count("distinct_selectors_in_one_process", int64(n))
	genql.VerifResetSelectorCache()
}

func (p *c09) runBytes(r *core.CaseResult, pi int) {
	n := len(p.alpha)
	var prefixes []string
	if pi == n*n {
		prefixes = []string{""}
		for _, c := range p.alpha {
			prefixes = append(prefixes, string(c))
		}
	}
	docs := []func() any{p.docs[1], p.docs[3], p.docs[10]}
	befores := make([]string, len(docs))
	for k, mk := range docs {
		befores[k] = gq.Render(mk())
	}
	run := func(sel string) {
		for k, mk := range docs {
			doc := mk()
			_, err, pan := gq.Reader(doc, sel)
			r.Execs++
			if pan != "" {
				r.Fail("C09|bytes|panic", fmt.Sprintf("selector %q: panic %s", sel, pan), map[string]any{"selector": sel, "doc": mk()})
				return
			}
			if err == nil {
				r.Nontrivial = true
			}
			if gq.Render(doc) != befores[k] {
				r.Fail("C09|bytes|document-modified", fmt.Sprintf("selector %q changed the document to %s", sel, gq.Render(doc)), map[string]any{"selector": sel, "doc": mk()})
				return
			}
		}
	}
	if pi == n*n {
		for _, s := range prefixes {
			run(s)
		}
		return
	}
	pre := string([]byte{p.alpha[pi/n], p.alpha[pi%n]})
	var rec func(s string)
	rec = func(s string) {
		run(s)
		if len(s) == p.blen {
			return
		}
		for _, c := range p.alpha {
			rec(s + string(c))
		}
	}
	rec(pre)
	genql.VerifResetSelectorCache()
}

func (p *c09) Meta() core.Meta {
	return core.Meta{
		Rule: "grammar cases: every selector of 1-2 steps over a 48-step menu (keys, quoted keys, missing keys, [i], [i:j], each in each dimension, keep=>, (m:n) with begin/end and bounds at / beyond the length, pipes with string/number/unknown types, ::), each also with mix=> / distinct=> / bogus=> in front and extended by every third step of a 25-step (thorough: the full) menu, on 13 documents (nested objects, arrays of objects, 2-D/3-D ragged arrays, empty arrays, scalars where arrays are expected, arrays with spare capacity holding garbage, NULLs): value/error must agree with the reference evaluator, never a panic, document unchanged, result independent of the selector cache (cold / warm / after another document); documented examples spelled as in the guide; byte-string cases: every string of length <= 4 (thorough 5) over a 16-character alphabet as a selector on 3 documents (totality, document unchanged). non-trivial = the reference value is non-NULL / some string evaluated without error",
		Assumptions: []string{
			"reading of the guide adopted by the reference: see harness/props/refsel.go (key and pipe steps map over arrays with the remaining steps; dimensions walk successive array levels; non-keep results are flattened by dims-1 levels; NULL absorbs; wrong shape / index outside [0,len) / bound outside [0,len] / begin > end are errors)",
			"`{k|string}` of a number is checked as a law (integer-valued -> decimal integer text; otherwise text that parses back), not against a format",
		},
		Bounds:     map[string]any{"menu": len(p.menu), "third_step_menu": map[string]int{"quick": len(p.small), "thorough": len(p.menu)}[p.tier], "documents": len(p.docs), "byte_string_length": p.blen},
		Exhaustive: true,
	}
}
