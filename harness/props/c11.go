package props

import (
	"fmt"
	"strings"

	"github.com/vedadiyan/genql"
	"verif/harness/core"
	"verif/harness/gq"
)

// C11: queries never modify the caller's input document - with or without Wrapped(), on success
// and at every point at which evaluation can fail part-way through.

type c11q struct {
	clause string
	sql    string // {R} is replaced by "" or "root." (Wrapped)
}

var c11Queries = []c11q{
	{"where", "SELECT id FROM `{R}t` WHERE a > 1"},
	{"where", "SELECT * FROM `{R}t` WHERE b LIKE 'x%' OR a IN (1, 3)"},
	{"where", "SELECT id FROM `{R}t` WHERE a BETWEEN 1 AND 2 AND n IS NULL"},
	{"projection", "SELECT id, a + 1 AS a, `o.p` AS p FROM `{R}t`"},
	{"projection", "SELECT *, CASE WHEN a > 1 THEN 'big' ELSE 'small' END AS size FROM `{R}t`"},
	{"projection", "SELECT FUSE(o) FROM `{R}t`"},
	{"projection", "SELECT id, `items[0].q` AS first, `items[each].q` AS qs, `items[(begin:1)]` AS head FROM `{R}t`"},
	{"projection", "SELECT id, `o{p|string}` AS piped FROM `{R}t`"},
	{"order", "SELECT * FROM `{R}t` ORDER BY a DESC"},
	{"order", "SELECT id FROM `{R}t` ORDER BY b, a DESC LIMIT 2 OFFSET 1"},
	{"order", "SELECT * FROM `{R}t` LIMIT 1"},
	{"distinct", "SELECT DISTINCT b FROM `{R}t`"},
	{"distinct", "SELECT DISTINCT * FROM `{R}t`"},
	{"group", "SELECT b, COUNT(*) AS c, SUM(a) AS s, * FROM `{R}t` GROUP BY b"},
	{"group", "SELECT b, MAX(a) AS m FROM `{R}t` GROUP BY b HAVING COUNT(*) > 1"},
	{"aggregate", "SELECT COUNT(*) AS c, AVG(a) AS v FROM `{R}t` WHERE a > 1"},
	{"join", "SELECT * FROM `{R}t` x JOIN `{R}u` y ON x.b = y.b"},
	{"join", "SELECT * FROM `{R}t` x LEFT JOIN `{R}u` y ON x.a < y.c"},
	{"join", "SELECT * FROM `{R}t` x RIGHT HASH_JOIN `{R}u` y ON x.b = y.b"},
	{"join", "SELECT * FROM `{R}t` x PARALLEL JOIN `{R}u` y ON x.b = y.b"},
	{"join", "SELECT * FROM `{R}t` x JOIN `{R}u` y ON x.b = y.b INTO j"},
	{"join", "SELECT `x.id` AS id, `y.c` AS c FROM `{R}t` x JOIN `{R}u` y ON x.b = y.b WHERE `x.a` > 1 ORDER BY id DESC"},
	{"union", "SELECT id FROM `{R}t` UNION SELECT c FROM `{R}u`"},
	{"union", "SELECT b FROM `{R}t` UNION ALL SELECT b FROM `{R}u` LIMIT 3"},
	{"cte", "WITH c AS (SELECT id, a FROM `{R}t` WHERE a > 1) SELECT * FROM c"},
	{"cte", "WITH c AS (SELECT * FROM `{R}t`), d AS (SELECT id FROM c ORDER BY id DESC) SELECT * FROM d"},
	{"cte", "WITH c AS (SELECT * FROM `{R}t`) SELECT * FROM c x JOIN c y ON x.id = y.id"},
	{"cte", "WITH t AS (SELECT 1 AS shadow FROM `{R}u`) SELECT * FROM t"},
	{"derived", "SELECT * FROM (SELECT id, a FROM `{R}t` ORDER BY a DESC) AS d"},
	// WITH below the outermost statement: derived table, join operand, subquery, union branch
	{"nested-cte", "SELECT * FROM (WITH c AS (SELECT id FROM `{R}t`) SELECT * FROM c) AS x"},
	{"nested-cte", "SELECT * FROM `{R}t` x JOIN (WITH c AS (SELECT * FROM `{R}u`) SELECT * FROM c) y ON x.b = y.b"},
	{"nested-cte", "SELECT id, (WITH c AS (SELECT c FROM `<-{R}u`) SELECT * FROM c) AS s FROM `{R}t`"},
	{"nested-cte", "SELECT id FROM `{R}t` UNION ALL SELECT id FROM (WITH c AS (SELECT id FROM `{R}t` WHERE a > 1) SELECT * FROM c) AS d"},
	{"nested-cte", "SELECT * FROM (WITH c AS (SELECT id, FAULT(a) AS a FROM `{R}t`) SELECT * FROM c WHERE a > 100) AS x"},
	// WITH combined with UNION, and two WITH clauses in one statement
	{"cte-union", "WITH big AS (SELECT id, a FROM `{R}t` WHERE a > 1) SELECT id FROM big UNION SELECT id FROM big WHERE a > 2"},
	{"cte-union", "WITH big AS (SELECT id, a FROM `{R}t`) SELECT id FROM `{R}t` UNION ALL SELECT id FROM big UNION SELECT id FROM big"},
	{"cte-union", "WITH big AS (SELECT id, FAULT(a) AS a FROM `{R}t`) SELECT c FROM `{R}u` UNION ALL SELECT id FROM big"},
	{"nested-cte", "SELECT * FROM (WITH c AS (SELECT id FROM `{R}t`) SELECT * FROM c) x JOIN (WITH d AS (SELECT c AS id FROM `{R}u`) SELECT * FROM d) y ON x.id = y.id"},
	// joins whose operands carry no alias (the rows are the caller's own maps, not {alias: row} wrappers)
	{"join-unaliased", "SELECT * FROM `{R}t` LEFT JOIN `{R}u` ON b = b"},
	{"join-unaliased", "SELECT * FROM `{R}t` RIGHT JOIN `{R}u` ON a < c"},
	{"join-unaliased", "SELECT * FROM `{R}t` LEFT HASH_JOIN `{R}u` ON b = b"},
	{"join-unaliased", "SELECT * FROM `{R}t` PARALLEL LEFT JOIN `{R}u` ON a > c"},
	{"join-unaliased", "SELECT * FROM `{R}u` JOIN `{R}t` ON b = b"},
	{"join-unaliased", "SELECT * FROM `{R}t` x LEFT JOIN `{R}u` ON x.b = b"},
	{"subquery", "SELECT id, (SELECT q FROM items WHERE q > 0) AS s FROM `{R}t`"},
	{"subquery", "SELECT id, (SELECT c FROM `<-{R}u`) AS s, * FROM `{R}t`"},
	{"subquery", "SELECT id FROM `{R}t` WHERE a IN (SELECT c FROM `<-{R}u`)"},
	{"subquery", "SELECT id FROM `{R}t` WHERE a NOT IN (1) AND a IN (SELECT q FROM items)"},
	{"exists", "SELECT id FROM `{R}t` WHERE EXISTS (SELECT q FROM items WHERE q > a)"},
	{"exists", "SELECT id, * FROM `{R}t` WHERE NOT EXISTS (SELECT q FROM items WHERE q > 0) OR a = 1"},
	{"nested-from", "SELECT id FROM `{R}m` WHERE a > 1"},
	{"nested-from", "SELECT a + 1 AS a FROM `mix=>{R}m` ORDER BY a DESC"},
	{"functions", "SELECT id, ASYNC.HMID(a) AS m, SPINASYNC.HMID(a), ONCE.HONCE() AS o FROM `{R}t`"},
	{"functions", "SELECT SETVAR('k', a), GETVAR('k') AS v, ARRAY(a, b) AS arr, UNWIND(`items[each].q`) AS flat, UNWIND(grid) AS cells, `mix=>grid` AS mixed FROM `{R}t`"},
	{"functions", "SELECT FIRST(items) AS f, LAST(items) AS l, ELEMENTAT(items, 0) AS e FROM `{R}t` WHERE id = 0"},
	{"dual", "SELECT `{R}t[0].a` AS a, 1 + 1 AS two FROM dual"},
	// dual with an alias: the only row is the document itself
	{"dual-alias", "SELECT 1 = 1 AS c, (SELECT id FROM `{R}t`) AS s FROM dual x"},
	{"dual-alias", "SELECT CASE WHEN 2 > 1 THEN 'y' END AS c, EXISTS (SELECT id FROM `{R}t` WHERE a > 1) AS e, 1 IN (SELECT a FROM `{R}t`) AS i FROM dual AS d"},
	{"dual-alias-union", "SELECT 1 < 2 AS c FROM dual x UNION ALL SELECT id > 0 AS c FROM `{R}t`"},
	{"dual-alias-derived", "SELECT * FROM (SELECT 2 > 1 AS c, (SELECT COUNT(*) AS n FROM `{R}u`) AS n FROM dual y) AS d"},
	{"dual-alias-where", "SELECT 'k' AS k FROM dual x WHERE 1 = 1 AND EXISTS (SELECT id FROM `{R}t`)"},
	// top-level selector functions over arrays of the document (duplicates followed by new values)
	{"distinct-selector", "SELECT id, `distinct=>tags` AS tags FROM `{R}t`"},
	{"distinct-selector", "SELECT `distinct=>{R}t[each].b` AS bs, `distinct=>{R}t[0].tags` AS t0 FROM dual"},
	{"mix-selector", "SELECT id, `mix=>grid` AS flat FROM `{R}t`"},
	// EXISTS / subqueries / FROM over a nested array of arrays of objects of the row
	{"exists-nested-arrays", "SELECT id FROM `{R}t` WHERE EXISTS (SELECT w FROM cells WHERE w > 0)"},
	{"subquery-nested-arrays", "SELECT id, (SELECT w FROM cells WHERE w >= `<-a`) AS s FROM `{R}t`"},
	{"in-subquery-nested-arrays", "SELECT id FROM `{R}t` WHERE a IN (SELECT w FROM `mix=>cells`)"},
}

// fault templates: FAULT / RAISE_WHEN spliced into every clause position
var c11Faulted = []c11q{
	{"where", "SELECT id FROM `{R}t` WHERE FAULT(a) > 0"},
	{"where", "SELECT id FROM `{R}t` WHERE a > 0 AND FAULTB(a)"},
	{"projection", "SELECT id, FAULT(a) AS f, * FROM `{R}t`"},
	{"projection", "SELECT RAISE_WHEN(id = {K}, 'boom'), id FROM `{R}t`"},
	{"having", "SELECT b, COUNT(*) AS c FROM `{R}t` GROUP BY b HAVING FAULT(COUNT(*)) > 0"},
	{"group-projection", "SELECT b, FAULT(SUM(a)) AS s FROM `{R}t` GROUP BY b"},
	{"order", "SELECT id, FAULT(a) AS f FROM `{R}t` ORDER BY f DESC LIMIT 2"},
	{"cte", "WITH c AS (SELECT id, FAULT(a) AS a FROM `{R}t`) SELECT * FROM c WHERE a > 0"},
	{"cte-outer", "WITH c AS (SELECT id, a FROM `{R}t`) SELECT id FROM c WHERE FAULT(a) > 0"},
	{"derived", "SELECT * FROM (SELECT FAULT(a) AS a FROM `{R}t`) AS d"},
	{"subquery", "SELECT id, (SELECT FAULT(q) AS q FROM items) AS s FROM `{R}t`"},
	{"subquery-where", "SELECT id, (SELECT q FROM items WHERE FAULT(q) >= 0) AS s, * FROM `{R}t`"},
	{"subquery-enclosing", "SELECT id, (SELECT FAULT(c) AS c FROM `<-{R}u`) AS s FROM `{R}t`"},
	{"in-subquery", "SELECT id FROM `{R}t` WHERE a IN (SELECT FAULT(c) AS c FROM `<-{R}u`)"},
	{"in-list", "SELECT id FROM `{R}t` WHERE a IN (1, FAULT(a))"},
	{"exists", "SELECT id FROM `{R}t` WHERE EXISTS (SELECT q FROM items WHERE FAULT(q) >= a)"},
	{"union-branch", "SELECT id FROM `{R}t` UNION ALL SELECT FAULT(c) AS id FROM `{R}u`"},
	{"join-where", "SELECT * FROM `{R}t` x JOIN `{R}u` y ON x.b = y.b WHERE FAULT(`x.a`) > 0"},
	{"nested-from", "SELECT FAULT(a) AS a FROM `{R}m` WHERE a > 0"},
	{"function-argument", "SELECT CONCAT(b, FAULT(a)) AS s, ARRAY(FAULT(id)) AS arr FROM `{R}t`"},
	{"case", "SELECT CASE WHEN FAULT(a) > 1 THEN FAULT(b) ELSE 'z' END AS v FROM `{R}t`"},
	// evaluation deferred to post-processing
	{"await", "SELECT id, AWAIT(FAULT(a)) AS f FROM `{R}t`"},
	{"await-subquery", "SELECT id, AWAIT((SELECT FAULT(q) AS q FROM items)) AS s, * FROM `{R}t`"},
	{"await-subquery-enclosing", "SELECT id, AWAIT((SELECT FAULT(c) AS c FROM `<-{R}u`)) AS s FROM `{R}t`"},
	{"await-exists", "SELECT id, AWAIT(EXISTS (SELECT q FROM items WHERE FAULT(q) >= a)) AS e FROM `{R}t`"},
	// the nested query fails while it is being built (derived table, CTE, union branch, bad selector)
	{"subquery-derived", "SELECT id, (SELECT `d.q` AS q FROM (SELECT FAULT(q) AS q FROM items) d) AS s FROM `{R}t`"},
	{"subquery-cte", "SELECT id, (WITH c AS (SELECT FAULT(q) AS q FROM items) SELECT q FROM c) AS s FROM `{R}t`"},
	{"subquery-union", "SELECT id, (SELECT q FROM items UNION ALL SELECT FAULT(q) AS q FROM items) AS s FROM `{R}t`"},
	{"subquery-join-side", "SELECT id, (SELECT * FROM items x JOIN (SELECT FAULT(q) AS q FROM items) y ON x.q = y.q) AS s FROM `{R}t`"},
	{"in-subquery-derived", "SELECT id FROM `{R}t` WHERE a IN (SELECT `d.q` AS q FROM (SELECT FAULT(q) AS q FROM items) d)"},
	{"exists-derived", "SELECT id FROM `{R}t` WHERE EXISTS (SELECT `d.q` AS q FROM (SELECT FAULT(q) AS q FROM items) d)"},
	{"subquery-bad-from", "SELECT id, (SELECT q FROM `items[abc]`) AS s FROM `{R}t`"},
	{"subquery-in-subquery", "SELECT id, (SELECT q, (SELECT `d.w` AS w FROM (SELECT FAULT(q) AS w FROM `<-items`) d) AS inn FROM items) AS s FROM `{R}t`"},
	{"type-error", "SELECT id FROM `{R}t` WHERE a > 1 AND b"},
	{"type-error-late", "SELECT a + 1 AS v, id FROM `{R}t2`"},
}

type c11case struct {
	q       int
	faulted bool
	wrapped bool
}

type c11 struct {
	tier  string
	cases []c11case
	docs  []func() map[string]any
}

func init() { core.Register("C11", func() core.Prop { return &c11{} }) }

func (p *c11) ID() string { return "C11" }

func c11Docs() []func() map[string]any {
	withCap := func(items ...any) []any {
		s := make([]any, len(items), len(items)+3)
		copy(s, items)
		full := s[:cap(s)]
		for i := len(items); i < len(full); i++ {
			full[i] = map[string]any{"q": -99.0}
		}
		return s
	}
	row := func(id, a float64, b string, qs ...float64) map[string]any {
		items := []any{}
		for _, q := range qs {
			items = append(items, map[string]any{"q": q})
		}
		return map[string]any{"id": id, "a": a, "b": b, "n": nil, "o": map[string]any{"p": a * 10, "r": "s"}, "items": withCap(items...), "grid": withCap(withCap(a, id), withCap(id)), "tags": withCap("x", "x", b, "x", "y"),
			"cells": withCap(withCap(map[string]any{"w": a}, map[string]any{"w": -a}), withCap(map[string]any{"w": id}))}
	}
	return []func() map[string]any{
		func() map[string]any {
			t := withCap(row(0, 1, "x", 1, 2), row(1, 2, "y"), row(2, 3, "x", 0, 5, -1))
			return map[string]any{
				"t":  t,
				"t2": []any{map[string]any{"id": 0.0, "a": 1.0}, map[string]any{"id": 1.0, "a": "not a number"}},
				"u":  withCap(map[string]any{"b": "x", "c": 2.0}, map[string]any{"b": "z", "c": 3.0}, map[string]any{"b": "x", "c": 1.0}),
				"m":  []any{withCap(row(0, 1, "x", 1)), []any{}, withCap(row(10, 2, "y"), row(11, 3, "x", 4))},
			}
		},
		func() map[string]any {
			return map[string]any{"t": []any{}, "t2": []any{}, "u": []any{}, "m": []any{}}
		},
		func() map[string]any {
			// rows shaped like the result of SELECT * ... GROUP BY: a `*` key holding the member rows
			g := func(id, a float64, b string) map[string]any {
				r := row(id, a, b, 1)
				r["*"] = []any{map[string]any{"id": id, "a": a}, map[string]any{"id": id + 10, "a": a + 1}}
				return r
			}
			return map[string]any{"t": []any{g(0, 1, "x"), g(1, 2, "y")}, "t2": []any{}, "u": []any{map[string]any{"b": "x", "c": 2.0}}, "m": []any{[]any{g(0, 2, "x")}}}
		},
		func() map[string]any {
			return map[string]any{
				"t":  []any{row(0, 2, "x", 3)},
				"t2": []any{map[string]any{"id": 0.0, "a": "x"}},
				"u":  []any{map[string]any{"b": "x", "c": 2.0}},
				"m":  []any{[]any{row(0, 2, "x", 3)}},
			}
		},
		func() map[string]any {
			// nested arrays whose last element is not an object: clauses that walk them fail part-way
			r0, r1 := row(0, 1, "x", 1), row(1, 2, "y", 3, 4)
			r1["items"] = append(r1["items"].([]any)[:2:2], "not an object")
			r0["grid"] = []any{[]any{1.0}, "not an array"}
			return map[string]any{"t": []any{r0, r1}, "t2": []any{}, "u": []any{map[string]any{"b": "x", "c": 2.0}, "not an object"}, "m": []any{[]any{r0}, "not an array", []any{r1}}}
		},
		func() map[string]any {
			// one row object shared by two arrays, and one array shared by two keys (aliasing inside the document)
			shared := row(0, 2, "x", 1)
			arr := []any{shared, row(1, 1, "y", 2, 2)}
			return map[string]any{"t": arr, "t2": arr, "u": []any{map[string]any{"b": "x", "c": 2.0}, map[string]any{"b": "y", "c": 1.0}}, "m": []any{arr, arr}}
		},
	}
}

func (p *c11) Init(tier string) {
	p.tier = tier
	p.docs = c11Docs()
	for _, w := range []bool{false, true} {
		for i := range c11Queries {
			p.cases = append(p.cases, c11case{q: i, wrapped: w})
		}
		for i := range c11Faulted {
			p.cases = append(p.cases, c11case{q: i, faulted: true, wrapped: w})
		}
	}
}

func (p *c11) NumCases() int { return len(p.cases) }

func (p *c11) sqlOf(c *c11case) (string, string) {
	q := c11Queries
	if c.faulted {
		q = c11Faulted
	}
	root := ""
	if c.wrapped {
		root = "root."
	}
	return strings.ReplaceAll(q[c.q].sql, "{R}", root), q[c.q].clause
}

func (p *c11) Describe(i int) any {
	c := &p.cases[i]
	sql, clause := p.sqlOf(c)
	d := map[string]any{"query": sql, "clause": clause, "wrapped": c.wrapped, "documents": len(p.docs)}
	if c.faulted {
		d["faults"] = "fault-free run, then one run per invocation index k = 1..N of the fault point (RAISE_WHEN: one run per row id)"
	}
	return d
}

func (p *c11) RunCase(i int) *core.CaseResult {
	r := &core.CaseResult{}
	defer withUsage(r, "C11")()
	gq.UsageForcePrepare = true
	defer func() { gq.UsageForcePrepare = false }()
	c := &p.cases[i]
	sql, clause := p.sqlOf(c)
	opts := func() []genql.QueryOption {
		o := []genql.QueryOption{genql.WithVars(map[string]any{})}
		if c.wrapped {
			o = append(o, genql.Wrapped())
		}
		return o
	}
	w := "plain"
	if c.wrapped {
		w = "wrapped"
	}
	for di, mk := range p.docs {
		runOnce := func(sqlText string, at int) (*gq.Out, string) {
			doc := mk()
			snap := gq.Snapshot(doc)
			resetFaults(at)
			hOnceCounter = 0
			o := gq.Run(doc, sqlText, opts()...)
			r.Execs++
			return o, snap.Diff(doc)
		}
		if !c.faulted {
			o, d := runOnce(sql, 0)
			r.Outcomes = append(r.Outcomes, o.Status())
			if o.Err == nil && len(o.Rows) > 0 {
				r.Nontrivial = true
			}
			if d != "" {
				r.Fail("C11|"+clause+"|"+w+"|"+o.Status()+"|modified", fmt.Sprintf("%s (%s, document %d) ended with %s (%v) and changed the input: %s", sql, w, di, o.Status(), o.Err, d), map[string]any{"sql": sql, "wrapped": c.wrapped, "doc": mk()})
			}
			continue
		}
		if strings.Contains(sql, "{K}") {
			rows, _ := mk()["t"].([]any)
			for k := 0; k <= len(rows); k++ {
				s := strings.ReplaceAll(sql, "{K}", fmt.Sprint(k))
				o, d := runOnce(s, 0)
				r.Outcomes = append(r.Outcomes, o.Status())
				if o.Failed() {
					r.Nontrivial = true
				}
				if d != "" {
					r.Fail("C11|fault:"+clause+"|"+w+"|"+o.Status()+"|modified", fmt.Sprintf("%s (%s, document %d) ended with %s (%v) and changed the input: %s", s, w, di, o.Status(), o.Err, d), map[string]any{"sql": s, "wrapped": c.wrapped, "doc": mk()})
				}
			}
			continue
		}
		o, d := runOnce(sql, 0)
		n := faultCount
		if d != "" {
			r.Fail("C11|fault:"+clause+"|"+w+"|fault-free|modified", fmt.Sprintf("%s (%s, document %d) without fault ended with %s (%v) and changed the input: %s", sql, w, di, o.Status(), o.Err, d), map[string]any{"sql": sql, "wrapped": c.wrapped, "doc": mk()})
			continue
		}
		r.Count("fault_points", int64(n))
		for k := 1; k <= n; k++ {
			o, d := runOnce(sql, k)
			r.Outcomes = append(r.Outcomes, fmt.Sprintf("%s@%d", o.Status(), k))
			if o.Failed() {
				r.Nontrivial = true
			}
			if d != "" {
				r.Fail("C11|fault:"+clause+"|"+w+"|"+o.Status()+"|modified", fmt.Sprintf("%s (%s, document %d) with the fault at invocation %d of %d ended with %s (%v) and changed the input: %s", sql, w, di, k, n, o.Status(), o.Err, d), map[string]any{"sql": sql, "wrapped": c.wrapped, "doc": mk(), "fault_at": k})
				break
			}
		}
	}
	return r
}

func (p *c11) Meta() core.Meta {
	return core.Meta{
		Rule:        "one case per (query, Wrapped or not): 67 queries covering every clause kind (WHERE operator families, projections incl. star / FUSE / path selectors / pipes, ORDER BY / LIMIT, DISTINCT, GROUP BY / HAVING / aggregates, every join strategy incl. INTO and PARALLEL, UNION, CTEs incl. one that shadows a document key and WITH clauses below the outermost statement, joins without table aliases, derived tables, select-list / IN / EXISTS subqueries with <-, nested FROM and mix=>, ASYNC / SPINASYNC / ONCE / SETVAR functions, dual with and without an alias) and 35 fault templates with FAULT(x) / RAISE_WHEN / a type error in every clause position, incl. nested queries that fail while being built (derived table / CTE / union branch / join side / bad selector inside a select-list, IN or EXISTS subquery); on 6 documents (spare capacity with sentinel values in every array, empty, single row, a document whose arrays and rows are aliased); fault templates are run fault-free to count the N invocations of the fault point and then once per k in 1..N. Oracle: cycle-safe deep comparison of the caller's document (keys, values, lengths, spare capacity) with a snapshot taken before New. non-trivial = the query returned rows / a fault fired",
		Assumptions: []string{"the result may share structure with the input (rows are passed by reference); only writes by the library are violations", "ASYNC functions of the harness do not modify their arguments"},
		Bounds:      map[string]any{"queries": len(c11Queries), "fault_templates": len(c11Faulted), "documents": len(p.docs)},
		Exhaustive:  true,
	}
}
