package props

import (
	"fmt"
	"math"
	"strconv"
	"strings"

	"github.com/vedadiyan/genql"
	"github.com/vedadiyan/genql/vrt"
	"verif/harness/core"
	"verif/harness/gq"
)

// C18: built-in functions obey their algebraic contracts for all arguments.

type c18fn struct {
	name  string
	arity int                         // -1 variadic
	dom   [][]any                     // argument domains per position (nil = the general value set)
	ref   func(a []any) (any, string) // "", "error", "abstain"
}

var c18Vals = []any{
	nil, true, false, 0.0, 1.0, -1.0, 1.5, "", "a", "Ab", "é", "12", "2.5",
	[]any{}, []any{1.0}, []any{1.0, []any{2.0, 3.0}, nil, "x"}, []any{[]any{1.0}, []any{2.0}}, []any{[]any{[]any{1.0}, 2.0}, 3.0},
}

func isArr(v any) ([]any, bool) { a, ok := v.([]any); return a, ok }

func textOf(v any) (string, bool) {
	switch t := v.(type) {
	case string:
		return t, true
	case float64:
		return strconv.FormatFloat(t, 'f', -1, 64), true
	case bool:
		return strconv.FormatBool(t), true
	}
	return "", false
}

func c18Funcs() []c18fn {
	idx := []any{-1.0, 0.0, 1.0, 2.0, 3.0, 4.0, 5.0, 1.5, nil, "1"}
	types := []any{"string", "double", "integer", "array", "STRING", "Double", "bogus", nil, 1.0}
	algs := []any{"md5", "sha1", "sha256", "sha512", "SHA256", "Md5", "bogus", nil}
	bases := []any{"base64", "base32", "hex", "HEX", "Base64", "bogus", nil}
	return []c18fn{
		{name: "FIRST", arity: 1, ref: func(a []any) (any, string) {
			if a[0] == nil {
				return nil, ""
			}
			if arr, ok := isArr(a[0]); ok {
				if len(arr) == 0 {
					return nil, ""
				}
				return arr[0], ""
			}
			return nil, "abstain"
		}},
		{name: "LAST", arity: 1, ref: func(a []any) (any, string) {
			if a[0] == nil {
				return nil, ""
			}
			if arr, ok := isArr(a[0]); ok {
				if len(arr) == 0 {
					return nil, ""
				}
				return arr[len(arr)-1], ""
			}
			return nil, "abstain"
		}},
		{name: "ELEMENTAT", arity: 2, dom: [][]any{nil, idx}, ref: func(a []any) (any, string) {
			i, isNum := a[1].(float64)
			if !isNum || i != math.Trunc(i) {
				return nil, "abstain"
			}
			if a[0] == nil {
				return nil, ""
			}
			arr, ok := isArr(a[0])
			if !ok {
				return nil, "abstain"
			}
			if len(arr) == 0 {
				return nil, "error-or-null"
			}
			if i < 0 || int(i) >= len(arr) {
				return nil, "error"
			}
			return arr[int(i)], ""
		}},
		{name: "UNWIND", arity: 1, ref: func(a []any) (any, string) {
			arr, ok := isArr(a[0])
			if !ok {
				return nil, "abstain"
			}
			out := []any{}
			for _, x := range arr {
				if sub, ok := isArr(x); ok {
					out = append(out, sub...)
				} else {
					out = append(out, x)
				}
			}
			return out, ""
		}},
		{name: "ARRAY", arity: -1, ref: func(a []any) (any, string) { return append([]any{}, a...), "" }},
		{name: "CONCAT", arity: -1, ref: func(a []any) (any, string) {
			s := ""
			for _, x := range a {
				if x == nil {
					continue
				}
				t, ok := textOf(x)
				if !ok {
					return nil, "abstain"
				}
				s += t
			}
			return s, ""
		}},
		{name: "IF", arity: 3, dom: [][]any{{true, false, nil, 1.0, "true"}, nil, {nil, 0.0, "z", []any{1.0}}}, ref: func(a []any) (any, string) {
			c, ok := a[0].(bool)
			if !ok {
				return nil, "abstain"
			}
			if c {
				return a[1], ""
			}
			return a[2], ""
		}},
		{name: "TO_LOWER", arity: 1, ref: func(a []any) (any, string) {
			if s, ok := a[0].(string); ok {
				return strings.ToLower(s), ""
			}
			return nil, "abstain"
		}},
		{name: "TO_UPPER", arity: 1, ref: func(a []any) (any, string) {
			if s, ok := a[0].(string); ok {
				return strings.ToUpper(s), ""
			}
			return nil, "abstain"
		}},
		{name: "CHANGETYPE", arity: 2, dom: [][]any{append(append([]any{}, c18Vals...), "010", "-0012", "0x10", "1_0", "+7", " 7", "7 ", "1e2", "0b11", "0o17"), types}, ref: func(a []any) (any, string) {
			t, ok := a[1].(string)
			if !ok {
				return nil, "abstain"
			}
			if a[0] == nil {
				return nil, "abstain"
			}
			switch strings.ToLower(t) {
			case "array":
				return []any{a[0]}, ""
			case "string":
				switch v := a[0].(type) {
				case string:
					return v, ""
				case float64:
					return strconv.FormatFloat(v, 'f', -1, 64), ""
				}
				return nil, "abstain"
			case "double":
				switch v := a[0].(type) {
				case float64:
					return v, ""
				case string:
					f, err := strconv.ParseFloat(v, 64)
					if err != nil {
						return nil, "error"
					}
					return f, ""
				}
				return nil, "abstain"
			case "integer":
				switch v := a[0].(type) {
				case float64:
					if v == math.Trunc(v) {
						return v, ""
					}
					return nil, "abstain"
				case string:
					n, err := strconv.Atoi(v)
					if err != nil {
						return nil, "abstain"
					}
					return float64(n), ""
				}
				return nil, "abstain"
			}
			return nil, "error"
		}},
		{name: "DATERANGE", arity: 2, dom: [][]any{{"2024-01-01", "a", "", 1.0, nil}, {"2024-12-31", "b", "", 2.0, nil}}, ref: func(a []any) (any, string) {
			f, ok1 := textOf(a[0])
			t, ok2 := textOf(a[1])
			if a[0] == nil || a[1] == nil {
				// an open bound: what stands for it is not fixed, but the other bound keeps its place
				if (a[0] != nil && !ok1) || (a[1] != nil && !ok2) {
					return nil, "abstain"
				}
				return openRange{a[0] != nil, f, a[1] != nil, t}, ""
			}
			if !ok1 || !ok2 {
				return nil, "abstain"
			}
			return []any{f, t}, ""
		}},
		{name: "CONSTANT", arity: 1, dom: [][]any{{"c", "s", "arr", "missing", "C", nil, 1.0}}, ref: func(a []any) (any, string) {
			k, ok := a[0].(string)
			if !ok {
				return nil, "abstain"
			}
			switch k {
			case "c":
				return 1.0, ""
			case "s":
				return "x", ""
			case "arr":
				return []any{1.0, "y"}, ""
			}
			return nil, "error"
		}},
		{name: "HASH", arity: 2, dom: [][]any{nil, algs}, ref: func(a []any) (any, string) {
			alg, ok := a[1].(string)
			if !ok {
				return nil, "abstain"
			}
			switch a[0].(type) {
			case nil, []any:
				return nil, "abstain" // the statement is about scalars
			}
			switch strings.ToLower(alg) {
			case "md5":
				return hashLen(32), ""
			case "sha1":
				return hashLen(40), ""
			case "sha256":
				return hashLen(64), ""
			case "sha512":
				return hashLen(128), ""
			}
			return nil, "error"
		}},
		{name: "ENCODE", arity: 2, dom: [][]any{nil, bases}, ref: func(a []any) (any, string) {
			b, ok := a[1].(string)
			if !ok {
				return nil, "abstain"
			}
			switch a[0].(type) {
			case nil, []any:
				return nil, "abstain"
			}
			switch strings.ToLower(b) {
			case "base64", "base32", "hex":
				return roundTrip{a[0], b}, ""
			}
			return nil, "error"
		}},
	}
}

// openRange: DATERANGE with a NULL bound - the bounds that are given sit at their positions.
type openRange struct {
	hasF bool
	f    string
	hasT bool
	t    string
}

type hashLen int
type roundTrip struct {
	v    any
	base string
}

type c18case struct {
	fn    int
	kind  string // "values" | "arity"
	first int    // index of the first argument in its domain (-1: zero arguments)
}

type c18 struct {
	tier  string
	fns   []c18fn
	cases []c18case
}

func init() { core.Register("C18", func() core.Prop { return &c18{} }) }

func (p *c18) ID() string { return "C18" }

func (p *c18) domain(f *c18fn, pos int) []any {
	if f.dom != nil && pos < len(f.dom) && f.dom[pos] != nil {
		return f.dom[pos]
	}
	return c18Vals
}

func (p *c18) Init(tier string) {
	p.tier = tier
	p.fns = c18Funcs()
	for fi := range p.fns {
		f := &p.fns[fi]
		if f.arity == -1 {
			p.cases = append(p.cases, c18case{fi, "values", -1})
		}
		for k := range p.domain(f, 0) {
			p.cases = append(p.cases, c18case{fi, "values", k})
		}
		if f.arity >= 0 {
			p.cases = append(p.cases, c18case{fi, "arity", 0})
		}
		p.cases = append(p.cases, c18case{fi, "history", 0})
		if f.name == "CONSTANT" {
			p.cases = append(p.cases, c18case{fi, "contexts", 0})
		}
		if f.name == "CHANGETYPE" {
			p.cases = append(p.cases, c18case{fi, "roundtrip", 0})
		}
		if f.name == "ARRAY" {
			p.cases = append(p.cases, c18case{fi, "literals", 0})
		}
		if f.name == "ELEMENTAT" {
			p.cases = append(p.cases, c18case{fi, "large", 0})
		}
	}
}

func (p *c18) NumCases() int { return len(p.cases) + 1 }

func (p *c18) Describe(i int) any {
	if i == len(p.cases) {
		return map[string]any{"function": "CONSTANT", "kind": "the constants map changed by the caller after New: 5 queries x every sequence of two of 5 changes; the query built before, and a second query given the same option value, must return what a query built with the current constants returns"}
	}
	c := p.cases[i]
	f := &p.fns[c.fn]
	if c.kind == "contexts" {
		return map[string]any{"function": "CONSTANT / GETVAR", "kind": "the configured constant / variable is returned in every nested context (derived table, CTE, union branches, subqueries, join side, nested FROM) under every combination of the other options"}
	}
	if c.kind == "large" {
		return map[string]any{"function": "ELEMENTAT / FIRST / LAST", "kind": "arrays of more than a million elements: indices around 10^6 (a double of that size prints in exponent form), the last index, the length; index given as a column, as a literal and as an expression"}
	}
	if c.kind == "literals" {
		return map[string]any{"function": "ARRAY / IF / CONCAT / ENCODE / FIRST / CHANGETYPE", "kind": "arguments written as SQL literals: numeric literals next to string literals spelled the same ('1' and 1), in one query, across rows and across queries of one process"}
	}
	if c.kind == "roundtrip" {
		return map[string]any{"function": f.name, "kind": "string <-> double round-trips for doubles of every magnitude (1e-10 .. 1.5e300, whole numbers at and beyond 2^53 / 2^63, fractions)"}
	}
	if c.kind == "history" {
		return map[string]any{"function": f.name, "kind": "history independence: a call returns the same value before and after every rejected or failing call of the same function"}
	}
	if c.kind == "arity" {
		return map[string]any{"function": f.name, "kind": fmt.Sprintf("every argument count from 0 to %d except %d must be rejected", f.arity+2, f.arity)}
	}
	first := "no arguments"
	if c.first >= 0 {
		first = gq.Render(p.domain(f, 0)[c.first])
	}
	return map[string]any{"function": f.name, "first_argument": first, "others": "every value of the remaining argument domains"}
}

func (p *c18) call(f *c18fn, args []any) *gq.Out {
	row := map[string]any{}
	var cols []string
	for i, a := range args {
		k := fmt.Sprintf("c%d", i)
		row[k] = gq.Clone(a)
		cols = append(cols, k)
	}
	sql := "SELECT " + f.name + "(" + strings.Join(cols, ", ") + ") AS v FROM t"
	return gq.Run(map[string]any{"t": []any{row}}, sql, genql.WithConstants(map[string]any{"c": 1.0, "s": "x", "arr": []any{1.0, "y"}}))
}

func normalise(v any) any {
	switch t := v.(type) {
	case []string:
		out := make([]any, len(t))
		for i, s := range t {
			out[i] = s
		}
		return out
	case int:
		return float64(t)
	case int64:
		return float64(t)
	}
	return v
}

func argKinds(args []any) string {
	var ks []string
	for _, a := range args {
		switch t := a.(type) {
		case nil:
			ks = append(ks, "null")
		case bool:
			ks = append(ks, "bool")
		case float64:
			switch {
			case t < 0:
				ks = append(ks, "neg")
			case t != math.Trunc(t):
				ks = append(ks, "frac")
			default:
				ks = append(ks, "num")
			}
		case string:
			ks = append(ks, "str")
		case []any:
			if len(t) == 0 {
				ks = append(ks, "empty-array")
			} else {
				ks = append(ks, "array")
			}
		}
	}
	return strings.Join(ks, ",")
}

func (p *c18) checkCall(r *core.CaseResult, f *c18fn, args []any) {
	want, mode := f.ref(args)
	if mode == "abstain" {
		r.Unspecified++
		// still executed: totality (no panic escaping New/Exec) is C10's matter, but count it
		o := p.call(f, args)
		r.Execs++
		if o.Panic != "" {
			r.Fail("C18|"+f.name+"|"+argKinds(args)+"|panic", fmt.Sprintf("%s(%s): panic escaped: %s", f.name, gq.Render(args), o.Panic), map[string]any{"function": f.name, "args": args})
		}
		return
	}
	o := p.call(f, args)
	r.Execs++
	cs := map[string]any{"function": f.name, "args": args}
	sig := func(m string) string { return "C18|" + f.name + "|" + argKinds(args) + "|" + m }
	if o.Panic != "" || o.GPanic != "" {
		r.Fail(sig("panic"), fmt.Sprintf("%s(%s): panic escaped: %s%s", f.name, gq.Render(args), o.Panic, o.GPanic), cs)
		return
	}
	switch mode {
	case "error":
		if o.Err == nil {
			r.Fail(sig("no-error"), fmt.Sprintf("%s(%s) returned %s; an error is required", f.name, gq.Render(args), gq.Render(o.Rows)), cs)
		}
		r.Outcomes = append(r.Outcomes, f.name+":error")
		return
	case "error-or-null":
		if o.Err == nil && gq.Render(o.Rows) != `[{"v":null}]` {
			r.Fail(sig("value-from-empty-array"), fmt.Sprintf("%s(%s) returned %s; NULL or an error is required", f.name, gq.Render(args), gq.Render(o.Rows)), cs)
		}
		return
	}
	if o.Err != nil {
		r.Fail(sig("unexpected-error"), fmt.Sprintf("%s(%s) failed: %v; expected %s", f.name, gq.Render(args), o.Err, gq.Render(want)), cs)
		return
	}
	if len(o.Rows) != 1 {
		r.Fail(sig("row-count"), fmt.Sprintf("%s(%s): %d rows", f.name, gq.Render(args), len(o.Rows)), cs)
		return
	}
	got := normalise(o.Rows[0].(map[string]any)["v"])
	r.Nontrivial = true
	switch w := want.(type) {
	case openRange:
		arr, ok := got.([]any)
		bad := !ok || len(arr) != 2
		if !bad && w.hasF && arr[0] != any(w.f) {
			bad = true
		}
		if !bad && w.hasT && arr[1] != any(w.t) {
			bad = true
		}
		if !bad && !w.hasF && arr[0] != nil && arr[0] != any("") {
			bad = true
		}
		if !bad && !w.hasT && arr[1] != nil && arr[1] != any("") {
			bad = true
		}
		if bad {
			r.Fail(sig("open-bound"), fmt.Sprintf("%s(%s) = %s; the given bound must keep its position, the open one be NULL or empty", f.name, gq.Render(args), gq.Render(got)), cs)
		}
		r.Outcomes = append(r.Outcomes, "open-range")
	case hashLen:
		s, ok := got.(string)
		o2 := p.call(f, args)
		r.Execs++
		again := ""
		if o2.Err == nil && len(o2.Rows) == 1 {
			again, _ = o2.Rows[0].(map[string]any)["v"].(string)
		}
		if !ok || len(s) != int(w) || strings.Trim(s, "0123456789abcdef") != "" || again != s {
			r.Fail(sig("hash-contract"), fmt.Sprintf("%s(%s) = %s (again: %q); want %d hex digits, the same on every evaluation", f.name, gq.Render(args), gq.Render(got), again, int(w)), cs)
		}
		r.Outcomes = append(r.Outcomes, fmt.Sprintf("hash:%d", int(w)))
	case roundTrip:
		enc, ok := got.(string)
		if !ok {
			r.Fail(sig("encode-not-string"), fmt.Sprintf("ENCODE(%s) = %s", gq.Render(args), gq.Render(got)), cs)
			return
		}
		d := gq.Run(map[string]any{"t": []any{map[string]any{"e": enc, "b": w.base}}}, "SELECT DECODE(e, b) AS v FROM t")
		r.Execs++
		if d.Failed() || len(d.Rows) != 1 || gq.Render(normalise(d.Rows[0].(map[string]any)["v"])) != gq.Render(w.v) {
			r.Fail(sig("round-trip"), fmt.Sprintf("DECODE(ENCODE(%s, %q), %q) = %s (%v %s), want %s", gq.Render(w.v), w.base, w.base, gq.Render(d.Rows), d.Err, d.Panic, gq.Render(w.v)), cs)
		}
		// and through one query
		d2 := gq.Run(map[string]any{"t": []any{map[string]any{"c0": w.v, "b": w.base}}}, "SELECT DECODE(ENCODE(c0, b), b) AS v FROM t")
		r.Execs++
		if d2.Failed() || len(d2.Rows) != 1 || gq.Render(normalise(d2.Rows[0].(map[string]any)["v"])) != gq.Render(w.v) {
			r.Fail(sig("round-trip-nested"), fmt.Sprintf("SELECT DECODE(ENCODE(c0, b), b) with c0=%s b=%q returned %s (%v %s)", gq.Render(w.v), w.base, gq.Render(d2.Rows), d2.Err, d2.Panic), cs)
		}
		r.Outcomes = append(r.Outcomes, "roundtrip:"+strings.ToLower(w.base))
	default:
		if gq.Render(got) != gq.Render(want) {
			// narrow signature for the one recorded finding: CONCAT renders a NULL argument as the
			// text "<nil>" (everything else about the result being right)
			if f.name == "CONCAT" {
				alt := ""
				hasNull := false
				for _, a := range args {
					if a == nil {
						alt += "<nil>"
						hasNull = true
					} else {
						t, _ := textOf(a)
						alt += t
					}
				}
				if hasNull && gq.Render(got) == gq.Render(alt) {
					r.Fail("C18|CONCAT|null-argument|printed-as-<nil>", fmt.Sprintf("CONCAT(%s) = %s, want %s (NULL arguments contribute nothing)", gq.Render(args), gq.Render(got), gq.Render(want)), cs)
					return
				}
			}
			r.Fail(sig("wrong-value"), fmt.Sprintf("%s(%s) = %s, want %s", f.name, gq.Render(args), gq.Render(got), gq.Render(want)), cs)
		}
		r.Outcomes = append(r.Outcomes, f.name+":"+gq.Render(got))
	}
}

// runLiterals: arguments written as literals in the query text (the other cases pass them as
// columns): a string literal keeps its kind whatever numeric literal of the same spelling was
// evaluated before it - in the same call, the same query, an earlier row or an earlier query.
// runLarge: ELEMENTAT / FIRST / LAST on arrays whose length and indices lie beyond 10^6
// (numbers of that size print in exponent form under %v; an index read back from its text is lost).
func (p *c18) runLarge(r *core.CaseResult) {
	r.Nontrivial = true
	for _, n := range []int{1000001, 1200000} {
		arr := make([]any, n)
		for i := range arr {
			arr[i] = float64(i) + 0.5
		}
		doc := map[string]any{"t": []any{map[string]any{"arr": arr, "i": 0.0}}}
		row := doc["t"].([]any)[0].(map[string]any)
		for _, i := range []int{0, 7, 999999, 1000000, 1000001, 1048576, 1199999, 9999999, 10000000, n - 1, n, n + 1} {
			for _, form := range []string{"ELEMENTAT(arr, i)", fmt.Sprintf("ELEMENTAT(arr, %d)", i), fmt.Sprintf("ELEMENTAT(arr, %d + 1 - 1)", i)} {
				row["i"] = float64(i)
				o := gq.Run(doc, "SELECT "+form+" AS v FROM t")
				r.Execs++
				cs := map[string]any{"sql": "SELECT " + form + " AS v FROM t", "array-length": n, "i": i}
				switch {
				case o.Panic != "":
					r.Fail("C18|ELEMENTAT|large|panic", fmt.Sprintf("%s on an array of %d elements, i = %d: panic %s", form, n, i, o.Panic), cs)
				case i >= n:
					if o.Err == nil {
						r.Fail("C18|ELEMENTAT|large|no-error", fmt.Sprintf("%s on an array of %d elements, i = %d: returned %s, an index beyond the end is an error", form, n, i, gq.Render(o.Rows)), cs)
					}
				case o.Err != nil:
					r.Fail("C18|ELEMENTAT|large|error", fmt.Sprintf("%s on an array of %d elements, i = %d: error %v, want %v", form, n, i, o.Err, float64(i)+0.5), cs)
				default:
					want := gq.Render([]any{map[string]any{"v": float64(i) + 0.5}})
					if got := gq.Render(o.Rows); got != want {
						r.Fail("C18|ELEMENTAT|large|wrong-value", fmt.Sprintf("%s on an array of %d elements, i = %d: returned %s, want %s", form, n, i, got, want), cs)
					}
				}
			}
		}
		o := gq.Run(doc, "SELECT FIRST(arr) AS f, LAST(arr) AS l FROM t")
		r.Execs++
		want := gq.Render([]any{map[string]any{"f": 0.5, "l": float64(n-1) + 0.5}})
		if got := gq.Render(o.Rows); o.Err != nil || got != want {
			r.Fail("C18|FIRST-LAST|large|wrong-value", fmt.Sprintf("FIRST / LAST on an array of %d elements: %s (%v), want %s", n, got, o.Err, want), map[string]any{"array-length": n})
		}
	}
}

func (p *c18) runLiterals(r *core.CaseResult) {
	doc := func() map[string]any {
		return map[string]any{"t": []any{map[string]any{"n": 1.0}, map[string]any{"n": 2.0}, map[string]any{"n": 10.0}}}
	}
	three := func(v any) []any {
		return []any{map[string]any{"v": v}, map[string]any{"v": v}, map[string]any{"v": v}}
	}
	cases := []struct {
		sql  string
		want []any
	}{
		{"SELECT ARRAY(1, '1', 1.5, '1.5', '10', 10) AS v FROM t", three([]any{1.0, "1", 1.5, "1.5", "10", 10.0})},
		{"SELECT ARRAY('2', 2) AS v FROM t WHERE n > 0", three([]any{"2", 2.0})},
		{"SELECT IF(n > 0, '1', 0) AS v FROM t WHERE n < 100", three("1")},
		{"SELECT CONCAT('1', 1, '0', 0) AS v FROM t", three("1100")},
		{"SELECT FIRST(ARRAY('10', 10)) AS v, n FROM t WHERE n = 10", []any{map[string]any{"v": "10", "n": 10.0}}},
		{"SELECT DECODE(ENCODE('10', 'hex'), 'hex') AS v FROM t WHERE n < 10", []any{map[string]any{"v": "10"}, map[string]any{"v": "10"}}},
		{"SELECT CHANGETYPE('1', 'double') AS d, CHANGETYPE(1, 'string') AS s, '1' AS l, 1 AS m FROM t WHERE n = 1", []any{map[string]any{"d": 1.0, "s": "1", "l": "1", "m": 1.0}}},
		{"SELECT TO_UPPER('1e3') AS v, 1e3 AS m FROM t WHERE n = 1000 OR n = 2", []any{map[string]any{"v": "1E3", "m": 1000.0}}},
		// tuples handed on as arrays: signed numbers, unary operators and CASE among the elements
		{"SELECT ARRAY((-1, 'x')) AS v FROM t WHERE n = 1", []any{map[string]any{"v": []any{[]any{-1.0, "x"}}}}},
		{"SELECT FIRST((-n, n)) AS v, LAST((1, -2.5)) AS w FROM t WHERE n = 2", []any{map[string]any{"v": -2.0, "w": -2.5}}},
		{"SELECT ARRAY((~n, -n + 1, CASE WHEN n > 1 THEN 'big' ELSE 'small' END)) AS v FROM t WHERE n = 2", []any{map[string]any{"v": []any{[]any{-3.0, -1.0, "big"}}}}},
		{"SELECT ELEMENTAT((0, -1, 2), 1) AS v FROM t WHERE n = 1", []any{map[string]any{"v": -1.0}}},
	}
	// results are the caller's: arrays inside a result are edited, the same Query is executed again
	for _, sql := range []string{"SELECT ARRAY(1, 2) AS v, ARRAY(n, 'x') AS w, CHANGETYPE(n, 'array') AS x, UNWIND(ARRAY(ARRAY(1), 2)) AS y FROM t", "SELECT FIRST(ARRAY(ARRAY(1, 2))) AS v, ARRAY(ARRAY(3)) AS w FROM t"} {
		var first, second string
		var err1, err2 error
		vrt.Run(gq.Seq, nil, func() {
			defer func() { recover() }()
			q, err := genql.New(doc(), sql)
			if err != nil {
				err1 = err
				return
			}
			rows, err := q.Exec()
			err1 = err
			first = gq.Render(rows)
			var edit func(v any)
			edit = func(v any) {
				switch t := v.(type) {
				case []any:
					for i := range t {
						edit(t[i])
						t[i] = "edited"
					}
				case map[string]any:
					for _, x := range t {
						edit(x)
					}
				}
			}
			edit(any(rows))
			rows2, err := q.Exec()
			err2 = err
			second = gq.Render(rows2)
		})
		r.Execs += 2
		if err1 != nil || err2 != nil || first != second {
			r.Fail("C18|literals|result-shared-between-evaluations", fmt.Sprintf("%s: first Exec %s (%v); after the caller edited the arrays inside that result, the same Query returns %s (%v)", sql, first, err1, second, err2), map[string]any{"sql": sql})
		}
		// and within one result: the arrays of different rows are different arrays
		o := gq.Run(doc(), sql)
		if len(o.Rows) > 1 {
			if m, ok := o.Rows[0].(map[string]any); ok {
				for _, v := range m {
					if a, isArr := v.([]any); isArr && len(a) > 0 {
						a[0] = "edited"
					}
				}
			}
			if strings.Contains(gq.Render(o.Rows[1:]), "edited") {
				r.Fail("C18|literals|result-shared-between-rows", fmt.Sprintf("%s: editing an array in row 0 of the result shows in another row: %s", sql, gq.Render(o.Rows)), map[string]any{"sql": sql})
			}
		}
	}
	for round := 0; round < 2; round++ {
		for _, c := range cases {
			o := gq.Run(doc(), c.sql)
			r.Execs++
			if got, want := outcome(o), gq.Render(c.want); got != want {
				r.Fail("C18|literals|kind-changed", fmt.Sprintf("%s (round %d) returned %s (%v), want %s", c.sql, round, got, o.Err, want), map[string]any{"sql": c.sql})
				return
			}
		}
	}
	r.Nontrivial = true
}

// runRoundTrip: CHANGETYPE(v, 'string') of a double is text that reads back as the same double, and
// CHANGETYPE(that text, 'double') is v - for every magnitude, not only small whole numbers.
func (p *c18) runRoundTrip(r *core.CaseResult) {
	vals := []float64{0, 1, -1, 1e6, -1e6, 123456789, 1e15, 9007199254740992, -9007199254740992, 9223372036854775808, -9223372036854775808, 1e19, 18446744073709551616, -1e30, 1.5e300, 0.1, -0.5, 1e-7, -2.5e-10, 1.0 / 3.0, 2.5, 1234.5678}
	for _, v := range vals {
		doc := map[string]any{"t": []any{map[string]any{"c0": v}}}
		o := gq.Run(doc, "SELECT CHANGETYPE(c0, 'string') AS s, CHANGETYPE(CHANGETYPE(c0, 'string'), 'double') AS d, CHANGETYPE(CHANGETYPE(c0, 'STRING'), 'Double') AS d2 FROM t")
		r.Execs++
		cs := map[string]any{"value": v}
		if o.Failed() || len(o.Rows) != 1 {
			r.Fail("C18|CHANGETYPE|round-trip|"+o.Status(), fmt.Sprintf("CHANGETYPE(%v, 'string') and back: %s %v %s", v, o.Status(), o.Err, o.Panic), cs)
			continue
		}
		row, _ := o.Rows[0].(map[string]any)
		str, isStr := row["s"].(string)
		back, err := strconv.ParseFloat(str, 64)
		if !isStr || err != nil || back != v {
			r.Fail("C18|CHANGETYPE|round-trip|text", fmt.Sprintf("CHANGETYPE(%v, 'string') = %s, which does not read back as %v", v, gq.Render(row["s"]), v), cs)
			continue
		}
		if row["d"] != v || row["d2"] != v {
			r.Fail("C18|CHANGETYPE|round-trip|double", fmt.Sprintf("CHANGETYPE(CHANGETYPE(%v, 'string'), 'double') = %s / %s", v, gq.Render(row["d"]), gq.Render(row["d2"])), cs)
			continue
		}
		r.Nontrivial = true
		r.Outcomes = append(r.Outcomes, str)
	}
}

func (p *c18) RunCase(i int) *core.CaseResult {
	r := &core.CaseResult{}
	if i == len(p.cases) {
		runChangedC18(r)
		return r
	}
	c := p.cases[i]
	f := &p.fns[c.fn]
	if c.kind == "roundtrip" {
		p.runRoundTrip(r)
		return r
	}
	if c.kind == "literals" {
		p.runLiterals(r)
		return r
	}
	if c.kind == "large" {
		p.runLarge(r)
		return r
	}
	if c.kind == "arity" {
		for k := 0; k <= f.arity+2; k++ {
			if k == f.arity {
				continue
			}
			for _, fill := range []any{1.0, "a", []any{1.0}, nil} {
				args := make([]any, k)
				for j := range args {
					args[j] = fill
				}
				if f.name == "IF" && k > 0 {
					args[0] = true
				}
				o := p.call(f, args)
				r.Execs++
				if o.Panic != "" {
					r.Fail("C18|"+f.name+"|arity|panic", fmt.Sprintf("%s with %d arguments: panic %s", f.name, k, o.Panic), map[string]any{"function": f.name, "args": args})
				} else if o.Err == nil {
					r.Fail("C18|"+f.name+"|arity|accepted", fmt.Sprintf("%s with %d arguments (%s) returned %s; it takes %d", f.name, k, gq.Render(args), gq.Render(o.Rows), f.arity), map[string]any{"function": f.name, "args": args})
				}
				r.Nontrivial = true
				if k == 0 {
					break
				}
			}
		}
		return r
	}
	if c.kind == "history" {
		p.runHistory(r, f)
		return r
	}
	if c.kind == "contexts" {
		p.runContexts(r)
		return r
	}
	if c.first < 0 {
		p.checkCall(r, f, []any{})
		return r
	}
	n := f.arity
	if n == -1 {
		n = 3
		if p.tier == "thorough" {
			n = 4
		}
	}
	first := p.domain(f, 0)[c.first]
	var rec func(args []any)
	rec = func(args []any) {
		if f.arity == -1 || len(args) == n {
			p.checkCall(r, f, args)
		}
		if len(args) == n {
			return
		}
		for _, v := range p.domain(f, len(args)) {
			rec(append(append([]any{}, args...), v))
		}
	}
	rec([]any{first})
	// CHANGETYPE round trips
	if f.name == "CHANGETYPE" {
		switch v := first.(type) {
		case string:
			// the law is about canonical numeric text ("010", "+7", "1e2" read as numbers but are not how a number is printed)
			if f64, err := strconv.ParseFloat(v, 64); err == nil && strconv.FormatFloat(f64, 'f', -1, 64) == v {
				o := gq.Run(map[string]any{"t": []any{map[string]any{"c0": v}}}, "SELECT CHANGETYPE(CHANGETYPE(c0, 'double'), 'string') AS v FROM t")
				r.Execs++
				if o.Failed() || gq.Render(o.Rows) != gq.Render([]any{map[string]any{"v": v}}) {
					r.Fail("C18|CHANGETYPE|str|round-trip", fmt.Sprintf("string -> double -> string of %q returned %s (%v)", v, gq.Render(o.Rows), o.Err), map[string]any{"value": v})
				}
			}
		case float64:
			o := gq.Run(map[string]any{"t": []any{map[string]any{"c0": v}}}, "SELECT CHANGETYPE(CHANGETYPE(c0, 'string'), 'double') AS v FROM t")
			r.Execs++
			if o.Failed() || gq.Render(o.Rows) != gq.Render([]any{map[string]any{"v": v}}) {
				r.Fail("C18|CHANGETYPE|num|round-trip", fmt.Sprintf("double -> string -> double of %v returned %s (%v)", v, gq.Render(o.Rows), o.Err), map[string]any{"value": v})
			}
		}
	}
	return r
}

// runContexts: CONSTANT(k) returns the configured constant (and GETVAR the variable) wherever the
// call stands and whatever other options the query was given.
func (p *c18) runContexts(r *core.CaseResult) {
	ctxs := []struct{ name, sql, want string }{
		{"top", "SELECT CONSTANT('s') AS v, GETVAR('k') AS g FROM t", `[{"g":7,"v":"x"}]`},
		{"derived", "SELECT * FROM (SELECT CONSTANT('c') AS v, GETVAR('k') AS g FROM t) AS d", `[{"d":{"g":7,"v":1}}]`},
		{"cte", "WITH c AS (SELECT CONSTANT('s') AS v, GETVAR('k') AS g FROM t) SELECT * FROM c", `[{"g":7,"v":"x"}]`},
		{"union", "SELECT CONSTANT('c') AS v FROM t UNION ALL SELECT GETVAR('k') AS v FROM t", `[{"v":1},{"v":7}]`},
		{"subquery", "SELECT (SELECT CONSTANT('s') AS v, GETVAR('k') AS g FROM items) AS s FROM t", `[{"s":[{"g":7,"v":"x"}]}]`},
		{"where-subquery", "SELECT id FROM t WHERE 1 IN (SELECT CONSTANT('c') AS v FROM items)", `[{"id":0}]`},
		{"exists", "SELECT id FROM t WHERE EXISTS (SELECT q FROM items WHERE q >= CONSTANT('c') AND GETVAR('k') = 7)", `[{"id":0}]`},
		{"join-side", "SELECT `x.v` AS v FROM (SELECT CONSTANT('c') AS v, id FROM t) x JOIN t y ON x.id = y.id", `[{"v":1}]`},
		{"nested-from", "SELECT CONSTANT('s') AS v, GETVAR('k') AS g FROM m", `[[{"g":7,"v":"x"}]]`},
		{"cte-in-derived", "SELECT * FROM (WITH c AS (SELECT CONSTANT('c') AS v FROM t) SELECT v FROM c) AS d", `[{"d":{"v":1}}]`},
	}
	for m := 0; m < 8; m++ {
		for _, cx := range ctxs {
			opts := []genql.QueryOption{genql.WithConstants(map[string]any{"c": 1.0, "s": "x"}), genql.WithVars(map[string]any{"k": 7.0})}
			name := "constants+vars"
			if m&1 != 0 {
				opts = append(opts, genql.CompletedCallback(func() {}))
				name += "+completed"
			}
			if m&2 != 0 {
				opts = append(opts, genql.UnReportedErrors(func(error) {}))
				name += "+errors"
			}
			if m&4 != 0 {
				opts = append(opts, genql.IdomaticArrays())
				name += "+idiomatic"
			}
			row := map[string]any{"id": 0.0, "items": []any{map[string]any{"q": 1.0}}}
			doc := map[string]any{"t": []any{row}, "m": []any{[]any{gq.CloneMap(row)}}}
			o := gq.Run(doc, cx.sql, opts...)
			r.Execs++
			if got := outcome(o); got != cx.want {
				r.Fail("C18|CONSTANT|context="+cx.name+"|"+name, fmt.Sprintf("%s with options %s returned %s (%v), want %s", cx.sql, name, got, o.Err, cx.want), map[string]any{"sql": cx.sql, "options": name})
				continue
			}
			r.Nontrivial = true
		}
	}
}

// runHistory: built-in functions are pure.  For up to 40 calls on which the function succeeds and
// every call on which it fails (wrong algorithm / base / type name, index out of range, wrong
// argument count or kind), the successful call must return the same value before and after the
// failing one.
func (p *c18) runHistory(r *core.CaseResult, f *c18fn) {
	n := f.arity
	if n == -1 {
		n = 2
	}
	var tuples [][]any
	var rec func(args []any)
	rec = func(args []any) {
		if len(args) == n {
			tuples = append(tuples, args)
			return
		}
		for _, v := range p.domain(f, len(args)) {
			rec(append(append([]any{}, args...), v))
		}
	}
	rec(nil)
	var good, bad [][]any
	goodVal := map[int]string{}
	for _, t := range tuples {
		o := p.call(f, t)
		r.Execs++
		switch {
		case o.Panic != "":
		case o.Err != nil:
			if len(bad) < 12 {
				bad = append(bad, t)
			}
		default:
			if len(good) < 40 {
				goodVal[len(good)] = gq.Render(o.Rows)
				good = append(good, t)
			}
		}
	}
	if f.arity >= 0 {
		bad = append(bad, make([]any, f.arity+1))
	}
	for gi, g := range good {
		for _, b := range bad {
			p.call(f, b)
			o := p.call(f, g)
			r.Execs += 2
			if got := gq.Render(o.Rows); o.Failed() || got != goodVal[gi] {
				r.Fail("C18|"+f.name+"|history|value-depends-on-earlier-call", fmt.Sprintf("%s(%s) returned %s before, but %s (%v) after the failing call %s(%s)", f.name, gq.Render(g), goodVal[gi], got, o.Err, f.name, gq.Render(b)), map[string]any{"function": f.name, "args": g, "failing_call_before": b})
				return
			}
			r.Nontrivial = true
		}
	}
}

func (p *c18) Meta() core.Meta {
	return core.Meta{
		Rule: "one case per (function, first argument): FIRST, LAST, ELEMENTAT, UNWIND, ARRAY, CONCAT, IF, TO_LOWER, TO_UPPER, CHANGETYPE, DATERANGE, CONSTANT, HASH, ENCODE(+DECODE) called through SQL (SELECT f(c0, c1, ...) AS v FROM t, arguments as columns) with every tuple over the 18-value set {NULL, true, false, 0, 1, -1, 1.5, '', 'a', 'Ab', 'é', '12', '2.5', [], [1], [1,[2,3],NULL,'x'], [[1],[2]], [[[1],2],3]} and per-position domains (indices -1..5 and 1.5, type names / algorithms / bases incl. case variants and unknown ones); variadic functions up to 3 (thorough 4) arguments; plus one arity case per fixed-arity function (every count 0..n+2 except n). Oracle: 5-line reference per function; hash = hex of the algorithm's length, identical on re-evaluation; DECODE(ENCODE(v,b),b) = v in two query shapes; CHANGETYPE string<->double round trips; history cases: a successful call returns the same value before and after every failing call of the same function. non-trivial = the reference defines a value for the call; one case changing the constants map after New (5 queries x every sequence of two of 5 changes; the Query built before and a second Query given the same option value against a Query built with the current constants); one large case (ELEMENTAT / FIRST / LAST on arrays of 1 000 001 and 1 200 000 elements, indices around 10^6, the last index and the length)",
		Assumptions: []string{
			"the reference abstains where the statement is silent: non-array arguments to array functions, non-string arguments to string functions, non-integer indices, hashing/encoding of NULL and arrays, CONCAT of arrays, CHANGETYPE of booleans",
			"ELEMENTAT on an empty array may return NULL or an error (the statement allows both readings)",
			"textual form of a number = shortest decimal (1, 1.5, -1)",
		},
		Bounds:     map[string]any{"functions": len(p.fns), "values": len(c18Vals)},
		Exhaustive: true,
	}
}
