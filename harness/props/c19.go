package props

import (
	"fmt"
	"strings"

	"github.com/vedadiyan/genql"
	"github.com/vedadiyan/genql/vrt"
	"verif/harness/core"
	"verif/harness/gq"
)

// C19: a failure anywhere surfaces as an error - never as a partial result - and the library
// stays usable afterwards.
//
// Fault enumeration: every template is run fault-free to count the N invocations of the fault
// point, then once for every k in 1..N with the k-th invocation failing; RAISE_WHEN templates are
// run once per row id; type-error templates fail by themselves.  After every failed run a menu of
// follow-up queries is executed on the *same* document object and compared with their results
// on a pristine copy.

type c19t struct {
	clause string
	sql    string
	static bool // fails by itself (type error / unsupported construct): no fault point needed
}

var c19Templates = []c19t{
	{"where", "SELECT id FROM t WHERE FAULT(a) > 0", false},
	{"where-and", "SELECT id FROM t WHERE a > 0 AND FAULTB(a)", false},
	{"where-or", "SELECT id FROM t WHERE a > 100 OR FAULT(a) > 0", false},
	{"where-not", "SELECT id FROM t WHERE NOT FAULTB(a)", false},
	{"where-in-list", "SELECT id FROM t WHERE a IN (1, FAULT(a))", false},
	{"where-between", "SELECT id FROM t WHERE a BETWEEN FAULT(0) AND 10", false},
	{"where-like", "SELECT id FROM t WHERE b LIKE FAULT('%')", false},
	{"where-is", "SELECT id FROM t WHERE FAULT(n) IS NULL", false},
	{"select", "SELECT id, FAULT(a) AS f FROM t", false},
	{"select-star", "SELECT FAULT(a) AS f, * FROM t", false},
	{"select-arith", "SELECT id, FAULT(a) + 1 AS f FROM t", false},
	{"select-case-cond", "SELECT CASE WHEN FAULT(a) > 1 THEN 'x' ELSE 'y' END AS v FROM t", false},
	{"select-case-value", "SELECT CASE WHEN a > 0 THEN FAULT(b) ELSE 'y' END AS v FROM t", false},
	{"select-function-arg", "SELECT CONCAT(b, FAULT(a)) AS s FROM t", false},
	{"select-array-arg", "SELECT ARRAY(id, FAULT(a)) AS arr FROM t", false},
	{"select-nested-call", "SELECT TO_UPPER(CONCAT(FAULT(b), 'z')) AS s FROM t", false},
	{"select-once", "SELECT ONCE.FAULT(a) AS f, id FROM t", false},
	{"select-unary", "SELECT -FAULT(a) AS neg FROM t", false},
	{"distinct", "SELECT DISTINCT FAULT(b) AS b FROM t", false},
	{"order", "SELECT id, FAULT(a) AS f FROM t ORDER BY f DESC", false},
	{"limit", "SELECT FAULT(id) AS id FROM t LIMIT 1", false},
	{"having", "SELECT b, COUNT(*) AS c FROM t GROUP BY b HAVING FAULT(COUNT(*)) > 0", false},
	{"group-select", "SELECT b, FAULT(SUM(a)) AS s FROM t GROUP BY b", false},
	{"aggregate-select", "SELECT FAULT(COUNT(*)) AS c FROM t", false},
	{"aggregate-where", "SELECT COUNT(*) AS c, SUM(a) AS s FROM t WHERE FAULT(a) > 0", false},
	{"cte-body", "WITH c AS (SELECT id, FAULT(a) AS a FROM t) SELECT * FROM c", false},
	{"cte-consumer", "WITH c AS (SELECT id, a FROM t) SELECT id FROM c WHERE FAULT(a) > 0", false},
	{"cte-chain", "WITH c AS (SELECT id, a FROM t), d AS (SELECT FAULT(id) AS id FROM c) SELECT * FROM d", false},
	{"cte-twice", "WITH c AS (SELECT FAULT(id) AS id FROM t) SELECT * FROM c x JOIN c y ON x.id = y.id", false},
	{"derived", "SELECT * FROM (SELECT FAULT(a) AS a FROM t) AS d", false},
	{"derived-consumer", "SELECT FAULT(`d.a`) AS a FROM (SELECT a FROM t) AS d", false},
	{"subquery-select", "SELECT id, (SELECT FAULT(q) AS q FROM items) AS s FROM t", false},
	{"subquery-where", "SELECT id, (SELECT q FROM items WHERE FAULT(q) >= 0) AS s FROM t", false},
	{"subquery-enclosing", "SELECT id, (SELECT FAULT(c) AS c FROM `<-u`) AS s FROM t", false},
	{"subquery-star", "SELECT (SELECT FAULT(q) AS q FROM items) AS s, * FROM t", false},
	{"in-subquery", "SELECT id FROM t WHERE a IN (SELECT FAULT(c) AS c FROM `<-u`)", false},
	{"in-subquery-where", "SELECT id FROM t WHERE a IN (SELECT c FROM `<-u` WHERE FAULT(c) > 0)", false},
	{"exists", "SELECT id FROM t WHERE EXISTS (SELECT q FROM items WHERE FAULT(q) >= 0)", false},
	{"exists-select", "SELECT id FROM t WHERE EXISTS (SELECT FAULT(q) AS q FROM items)", false},
	{"not-exists", "SELECT id FROM t WHERE NOT EXISTS (SELECT q FROM items WHERE FAULT(q) > 100)", false},
	{"union-left", "SELECT FAULT(id) AS id FROM t UNION ALL SELECT c FROM u", false},
	{"union-right", "SELECT id FROM t UNION SELECT FAULT(c) AS id FROM u", false},
	// a failure next to calls that run in goroutines of their own: the next Exec of the same Query (run by
	// the re-execution step below) must await and invoke them as a fresh query does
	{"async-next-to-failure", "SELECT id, ASYNC.HMID(a) AS m, FAULT(a) AS f FROM t", false},
	{"spinasync-next-to-failure", "SELECT id, SPINASYNC.HMID(a), FAULT(id) AS f FROM t WHERE a > 0", false},
	// evaluation deferred to post-processing
	{"await", "SELECT id, AWAIT(FAULT(a)) AS f FROM t", false},
	{"await-subquery", "SELECT id, AWAIT((SELECT FAULT(q) AS q FROM items)) AS s FROM t", false},
	{"await-derived", "SELECT * FROM (SELECT AWAIT(FAULT(a)) AS f FROM t) AS d", false},
	{"await-cte", "WITH c AS (SELECT AWAIT(FAULT(a)) AS f FROM t) SELECT * FROM c", false},
	{"await-nested-from", "SELECT AWAIT(FAULT(a)) AS f FROM m", false},
	{"await-union", "SELECT AWAIT(FAULT(a)) AS f FROM t UNION ALL SELECT a AS f FROM t", false},
	// nested queries that fail while being built
	{"subquery-derived", "SELECT id, (SELECT `d.q` AS q FROM (SELECT FAULT(q) AS q FROM items) d) AS s FROM t", false},
	{"subquery-cte", "SELECT id, (WITH c AS (SELECT FAULT(q) AS q FROM items) SELECT q FROM c) AS s FROM t", false},
	{"subquery-union", "SELECT id, (SELECT q FROM items UNION ALL SELECT FAULT(q) AS q FROM items) AS s FROM t", false},
	{"in-subquery-derived", "SELECT id FROM t WHERE a IN (SELECT `d.q` AS q FROM (SELECT FAULT(q) AS q FROM items) d)", false},
	{"exists-derived", "SELECT id FROM t WHERE EXISTS (SELECT `d.q` AS q FROM (SELECT FAULT(q) AS q FROM items) d)", false},
	{"subquery-in-subquery", "SELECT id, (SELECT q, (SELECT `d.w` AS w FROM (SELECT FAULT(q) AS w FROM `<-items`) d) AS inn FROM items) AS s FROM t", false},
	{"join-consumer", "SELECT * FROM t x JOIN u y ON x.b = y.b WHERE FAULT(`x.a`) > 0", false},
	{"join-select", "SELECT FAULT(`y.c`) AS c FROM t x LEFT JOIN u y ON x.b = y.b", false},
	{"join-derived-side", "SELECT * FROM (SELECT FAULT(b) AS b FROM t) x JOIN u y ON x.b = y.b", false},
	{"join-derived-right-side", "SELECT * FROM u y JOIN (SELECT FAULT(b) AS b FROM t) x ON x.b = y.b", false},
	{"left-join-derived-right-side", "SELECT * FROM u y LEFT JOIN (SELECT FAULT(b) AS b FROM t) x ON x.b = y.b", false},
	{"join-cte-right-side", "WITH c AS (SELECT FAULT(b) AS b FROM t) SELECT * FROM u y JOIN c x ON x.b = y.b", false},
	{"join-both-derived", "SELECT * FROM (SELECT b FROM u) y JOIN (SELECT FAULT(b) AS b FROM t) x ON x.b = y.b", false},
	{"nested-from", "SELECT FAULT(a) AS a FROM m", false},
	{"join-on", "SELECT * FROM t x JOIN u y ON x.a >= y.c AND FAULTB(y.c)", false},
	{"join-on-left", "SELECT * FROM t x LEFT JOIN u y ON FAULTB(x.a) AND x.a >= y.c", false},
	{"join-on-right", "SELECT * FROM t x RIGHT JOIN u y ON x.a >= y.c AND FAULTB(y.c)", false},
	{"join-on-parallel", "SELECT * FROM t x PARALLEL JOIN u y ON x.a >= y.c AND FAULTB(y.c)", false},
	{"join-on-or", "SELECT * FROM t x JOIN u y ON x.a = y.c OR FAULTB(x.a)", false},
	// PARALLEL joins evaluate ON in one goroutine per left key: a key without any partner (a = 1),
	// keys that match, and the failing one finish in every order (schedules explored below)
	{"join-on-parallel-unmatched", "SELECT * FROM t x PARALLEL JOIN u y ON x.a > y.c AND FAULTB(y.c)", false},
	{"join-on-parallel-left", "SELECT * FROM t x PARALLEL LEFT JOIN u y ON x.a > y.c AND FAULTB(x.a)", false},
	{"join-on-parallel-first", "SELECT * FROM t x PARALLEL JOIN u y ON FAULTB(x.a) AND x.a > y.c", false},
	{"raise-when-select", "SELECT RAISE_WHEN(id = {K}, 'boom'), id FROM t", false},
	{"raise-when-having", "SELECT b, RAISE_WHEN(COUNT(*) > {K}, 'boom'), COUNT(*) AS c FROM t GROUP BY b", false},
	{"raise-in-subquery", "SELECT id, (SELECT RAISE_WHEN(q = {K}, 'boom'), q FROM items) AS s FROM t", false},
	// failures that need no fault point
	{"type-error-where", "SELECT id FROM t WHERE a > 0 AND b", true},
	{"type-error-select", "SELECT id, b + 1 AS v FROM t", true},
	{"type-error-late-row", "SELECT id, a + 1 AS v FROM t2", true},
	{"type-error-having", "SELECT b, COUNT(*) AS c FROM t GROUP BY b HAVING SUM(a)", true},
	{"type-error-not", "SELECT id FROM t WHERE NOT a", true},
	{"type-error-case", "SELECT CASE WHEN a THEN 1 ELSE 2 END AS v FROM t", true},
	{"type-error-aggregate", "SELECT SUM(b) AS s FROM t", true},
	{"type-error-join-on", "SELECT * FROM t x JOIN u y ON x.a + y.c", true},
	{"type-error-hash-join-on", "SELECT * FROM t x HASH_JOIN u y ON x.a + y.c", true},
	{"type-error-left-join-on", "SELECT * FROM t x LEFT JOIN u y ON x.b", true},
	{"group-by-non-column", "SELECT COUNT(*) AS c FROM t GROUP BY a + 1", true},
	{"group-by-function", "SELECT COUNT(*) AS c FROM t GROUP BY CONCAT(b, 'x')", true},
	{"order-by-non-column", "SELECT id FROM t ORDER BY a + 1", true},
	{"unknown-function", "SELECT id, NOSUCHFN(a) AS v FROM t", true},
	{"unknown-function-where", "SELECT id FROM t WHERE NOSUCHFN(a) > 1", true},
	{"arity", "SELECT FIRST(items, 1) AS v FROM t", true},
	{"elementat-range", "SELECT ELEMENTAT(items, 7) AS v FROM t", true},
	{"selector-index-range", "SELECT `items[7].q` AS v FROM t", true},
	{"selector-wrong-shape", "SELECT `b[0]` AS v FROM t", true},
	{"from-not-array", "SELECT id FROM `t[0].a`", true},
	{"selector-parse-error-select", "SELECT `items[abc]` AS v FROM t", true},
	{"selector-parse-error-where", "SELECT id FROM t WHERE `items[(0:1:x)]` IS NULL", true},
	{"selector-parse-error-from", "SELECT id FROM `t[x]`", true},
	{"selector-parse-error-continued", "SELECT `items::[x]` AS v FROM t", true},
	{"selector-parse-error-subquery", "SELECT id, (SELECT q FROM `items[y]`) AS s FROM t", true},
	{"limit-not-integer", "SELECT id FROM t LIMIT 1.5", true},
}

var c19Followups = []string{
	"SELECT * FROM t",
	"SELECT DISTINCT * FROM t",
	"SELECT id, `<-` AS back FROM t",
	"SELECT id, (SELECT q FROM items) AS s FROM t WHERE a IN (SELECT c FROM `<-u`)",
	"WITH c AS (SELECT id FROM t) SELECT * FROM c",
	"SELECT b, COUNT(*) AS c FROM t GROUP BY b",
}

type c19 struct {
	tier   string
	tables [][]int
}

func init() { core.Register("C19", func() core.Prop { return &c19{} }) }

func (p *c19) ID() string { return "C19" }

func (p *c19) Init(tier string) {
	p.tier = tier
	maxRows := 2
	if tier == "thorough" {
		maxRows = 3
	}
	var rec func(cur []int)
	rec = func(cur []int) {
		if len(cur) > 0 {
			p.tables = append(p.tables, append([]int{}, cur...))
		}
		if len(cur) == maxRows {
			return
		}
		for k := 0; k < 3; k++ {
			rec(append(cur, k))
		}
	}
	rec(nil)
}

func (p *c19) doc(tbl []int) map[string]any {
	arch := []func(id float64) map[string]any{
		func(id float64) map[string]any {
			return map[string]any{"id": id, "a": 1.0, "b": "x", "n": nil, "items": []any{map[string]any{"q": 0.0}, map[string]any{"q": 1.0}}}
		},
		func(id float64) map[string]any {
			return map[string]any{"id": id, "a": 2.0, "b": "y", "n": 1.0, "items": []any{}}
		},
		func(id float64) map[string]any {
			return map[string]any{"id": id, "a": 3.0, "b": "x", "n": nil, "items": []any{map[string]any{"q": 2.0}}}
		},
	}
	t := []any{}
	for i, k := range tbl {
		t = append(t, arch[k](float64(i)))
	}
	t2 := gq.Clone(any(t)).([]any)
	if len(t2) > 0 {
		t2[len(t2)-1].(map[string]any)["a"] = "not a number" // the type error strikes on the last row only
	}
	return map[string]any{
		"t": t, "t2": t2,
		"u": []any{map[string]any{"b": "x", "c": 1.0}, map[string]any{"b": "y", "c": 3.0}},
		"m": []any{gq.Clone(any(t)), []any{}, gq.Clone(any(t))},
	}
}

func (p *c19) NumCases() int { return len(c19Templates) }

func (p *c19) Describe(i int) any {
	t := c19Templates[i]
	how := "fault-free run to count the N invocations of FAULT, then one run per k = 1..N; after each failed run 6 follow-up queries on the same document"
	if t.static {
		how = "fails by itself on every non-empty table"
	}
	if strings.Contains(t.sql, "{K}") {
		how = "one run per row id K"
	}
	return map[string]any{"query": t.sql, "clause": t.clause, "faults": how, "tables": fmt.Sprintf("all %d tables of 1..%d rows over 3 archetypes", len(p.tables), map[string]int{"quick": 2, "thorough": 3}[p.tier])}
}

func (p *c19) followups(r *core.CaseResult, t *c19t, doc map[string]any, pristine map[string]any, sql string, at int) {
	for _, f := range c19Followups {
		resetFaults(0)
		a := gq.Run(doc, f, genql.WithVars(map[string]any{}))
		b := gq.Run(pristine, f, genql.WithVars(map[string]any{}))
		r.Execs += 2
		if oa, ob := outcome(a), outcome(b); oa != ob {
			r.Fail("C19|"+t.clause+"|followup-differs", fmt.Sprintf("after %s failed (fault at invocation %d), %s returns %s on the same document but %s on a pristine copy", sql, at, f, oa, ob), map[string]any{"failed_query": sql, "fault_at": at, "followup": f, "doc": pristine})
			return
		}
	}
}

func (p *c19) RunCase(i int) *core.CaseResult {
	r := &core.CaseResult{}
	t := &c19Templates[i]
	run := func(doc map[string]any, sql string, at int) *gq.Out {
		resetFaults(at)
		hOnceCounter = 0
		o := gq.Run(doc, sql, genql.WithVars(map[string]any{}))
		r.Execs++
		return o
	}
	// must-fail check for one execution
	mustFail := func(o *gq.Out, sql string, tbl []int, at int, doc map[string]any) {
		cs := map[string]any{"sql": sql, "fault_at": at, "doc": p.doc(tbl)}
		switch {
		case o.Panic != "" || o.GPanic != "":
			r.Fail("C19|"+t.clause+"|panic", fmt.Sprintf("%s on %s with the failure at %d: panic %s%s", sql, gq.Render(p.doc(tbl)["t"]), at, o.Panic, o.GPanic), cs)
		case o.Err == nil:
			r.Fail("C19|"+t.clause+"|no-error", fmt.Sprintf("%s on %s with the failure at invocation %d returned successfully: %s", sql, gq.Render(p.doc(tbl)["t"]), at, gq.Render(o.Rows)), cs)
		case o.Rows != nil:
			r.Fail("C19|"+t.clause+"|rows-with-error", fmt.Sprintf("%s on %s: error %v together with rows %s", sql, gq.Render(p.doc(tbl)["t"]), o.Err, gq.Render(o.Rows)), cs)
		default:
			r.Nontrivial = true
			p.followups(r, t, doc, p.doc(tbl), sql, at)
		}
	}
	for _, tbl := range p.tables {
		switch {
		case strings.Contains(t.sql, "{K}"):
			for k := 0; k < 3; k++ {
				sql := strings.ReplaceAll(t.sql, "{K}", fmt.Sprint(k))
				doc := p.doc(tbl)
				o := run(doc, sql, 0)
				fires := k < len(tbl)
				if t.clause == "raise-when-having" {
					fires = false
					cnt := map[any]int{}
					for _, row := range doc["t"].([]any) {
						cnt[row.(map[string]any)["b"]]++
					}
					for _, n := range cnt {
						if n > k {
							fires = true
						}
					}
				}
				if t.clause == "raise-in-subquery" {
					fires = false
					for _, row := range doc["t"].([]any) {
						for _, it := range row.(map[string]any)["items"].([]any) {
							if it.(map[string]any)["q"].(float64) == float64(k) {
								fires = true
							}
						}
					}
				}
				r.Outcomes = append(r.Outcomes, fmt.Sprintf("%s/%v", o.Status(), fires))
				if fires {
					mustFail(o, sql, tbl, k, doc)
				} else if o.Failed() {
					r.Fail("C19|"+t.clause+"|spurious-failure", fmt.Sprintf("%s on %s: the condition never holds but the query failed: %v %s", sql, gq.Render(doc["t"]), o.Err, o.Panic), map[string]any{"sql": sql, "doc": p.doc(tbl)})
				}
			}
		case t.static:
			// a query that fails by itself must fail every time: three runs on fresh documents (a
			// failure must not leave anything behind - in the document or in process-wide state -
			// that makes the same query succeed later)
			for attempt := 0; attempt < 3; attempt++ {
				doc := p.doc(tbl)
				o := run(doc, t.sql, 0)
				r.Outcomes = append(r.Outcomes, o.Status())
				mustFail(o, t.sql, tbl, -attempt, doc)
			}
			// the same Query object executed again: a query that fails by itself fails every time
			if f1, f2 := execTwice(p.doc(tbl), t.sql, 0); f2 != nil {
				r.Execs += 2
				if f1.Err != nil && f2.Err == nil && f2.Panic == "" {
					r.Fail("C19|"+t.clause+"|second-exec-succeeds", fmt.Sprintf("%s on %s: Exec failed (%v), Exec of the same Query object again returned %s", t.sql, gq.Render(p.doc(tbl)["t"]), f1.Err, gq.Render(f2.Rows)), map[string]any{"sql": t.sql, "doc": p.doc(tbl)})
				}
			}
		default:
			doc := p.doc(tbl)
			o := run(doc, t.sql, 0)
			o0 := o
			n := faultCount
			if o.Failed() {
				r.Fail("C19|"+t.clause+"|fault-free-run-fails", fmt.Sprintf("%s on %s fails without any injected fault: %v %s", t.sql, gq.Render(doc["t"]), o.Err, o.Panic), map[string]any{"sql": t.sql, "doc": p.doc(tbl)})
				continue
			}
			r.Count("fault_points", int64(n))
			for k := 1; k <= n; k++ {
				doc := p.doc(tbl)
				o := run(doc, t.sql, k)
				r.Outcomes = append(r.Outcomes, fmt.Sprintf("%s@%d/%d", o.Status(), k, n))
				if faultCount < k {
					// the k-th invocation was not reached in this run (evaluation order differs): nothing injected
					continue
				}
				mustFail(o, t.sql, tbl, k, doc)
				// the same with an UnReportedErrors handler installed (it is for ASYNC / SPIN calls only)
				{
					resetFaults(k)
					hOnceCounter = 0
					oh := gq.Run(p.doc(tbl), t.sql, genql.WithVars(map[string]any{}), genql.UnReportedErrors(func(error) {}))
					r.Execs++
					if faultCount >= k && oh.Err == nil && oh.Panic == "" {
						r.Fail("C19|"+t.clause+"|no-error-with-handler", fmt.Sprintf("%s on %s with the failure at invocation %d and an UnReportedErrors handler installed returned successfully: %s", t.sql, gq.Render(p.doc(tbl)["t"]), k, gq.Render(oh.Rows)), map[string]any{"sql": t.sql, "fault_at": k, "doc": p.doc(tbl)})
					}
				}
				if strings.Contains(t.sql, " PARALLEL ") {
					p.schedules(r, t, tbl, k)
				}
				// the same Query object: Exec with the failure, then Exec without it
				if f1, f2 := execTwice(p.doc(tbl), t.sql, k); f2 != nil && f1.Err != nil && !f1.InNew {
					r.Execs += 2
					if f2.GPanic != "" {
						r.Fail("C19|"+t.clause+"|second-exec-goroutine-panic", fmt.Sprintf("%s on %s: Exec failed at invocation %d; Exec of the same Query object again: a library goroutine panicked: %s", t.sql, gq.Render(p.doc(tbl)["t"]), k, f2.GPanic), map[string]any{"sql": t.sql, "fault_at": k, "doc": p.doc(tbl)})
					}
					if got, want := outcome(f2), outcome(o0); got != want && !p.kinds(t).bag && !strings.Contains(t.sql, "ONCE.") {
						r.Fail("C19|"+t.clause+"|second-exec-differs", fmt.Sprintf("%s on %s: Exec failed at invocation %d; Exec of the same Query object again, without fault, returned %s, a fresh query returns %s", t.sql, gq.Render(p.doc(tbl)["t"]), k, got, want), map[string]any{"sql": t.sql, "fault_at": k, "doc": p.doc(tbl)})
					}
				}
				// the failed query's own fault-free twin, on the same document
				twin := run(doc, t.sql, 0)
				if got, want := outcome(twin), outcome(o0); got != want && !p.kinds(t).bag {
					r.Fail("C19|"+t.clause+"|twin-differs", fmt.Sprintf("after %s failed at invocation %d, the same query without fault returns %s on the same document; on a fresh document it returned %s", t.sql, k, got, want), map[string]any{"sql": t.sql, "fault_at": k, "doc": p.doc(tbl)})
				}
			}
		}
	}
	return r
}

// schedules: a PARALLEL join evaluates ON in one goroutine per left key; the k-th invocation fails
// under every completion order of those goroutines and every iteration order of the key tables
// within the bound: whenever the failure was injected, the query must fail.
func (p *c19) schedules(r *core.CaseResult, t *c19t, tbl []int, k int) {
	bound := 1
	if p.tier == "thorough" {
		bound = 2
	}
	cfg := vrt.Config{Sched: true, MapOrder: true, Quiet: true}
	vrt.SetQuiet(genql.VerifSelectorMutex())
	st := gq.ExploreQuery(cfg, bound, 200000,
		func() (map[string]any, string, []genql.QueryOption) {
			resetFaults(k)
			// with a handler for unreported errors installed: a failure of a synchronous step is
			// still reported by New / Exec, not handed to the handler instead
			return p.doc(tbl), t.sql, []genql.QueryOption{genql.WithVars(map[string]any{}), genql.UnReportedErrors(func(error) {})}
		},
		func(o *gq.Out, prefix []int32) bool {
			if faultCount < k {
				return true
			}
			cs := map[string]any{"sql": t.sql, "fault_at": k, "doc": p.doc(tbl), "choices": prefix}
			switch {
			case o.Panic != "" || o.GPanic != "":
				r.Fail("C19|"+t.clause+"|panic", fmt.Sprintf("%s on %s with the failure at %d, choices %v: panic %s%s", t.sql, gq.Render(p.doc(tbl)["t"]), k, prefix, o.Panic, o.GPanic), cs)
				return false
			case o.Err == nil:
				r.Fail("C19|"+t.clause+"|no-error", fmt.Sprintf("%s on %s with the failure at invocation %d returned successfully under choices %v: %s", t.sql, gq.Render(p.doc(tbl)["t"]), k, prefix, gq.Render(o.Rows)), cs)
				return false
			case o.Rows != nil:
				r.Fail("C19|"+t.clause+"|rows-with-error", fmt.Sprintf("%s on %s, choices %v: error %v together with rows %s", t.sql, gq.Render(p.doc(tbl)["t"]), prefix, o.Err, gq.Render(o.Rows)), cs)
				return false
			}
			return true
		})
	r.Execs += st.Execs
	r.Transitions += st.Transitions
	r.Count("schedules_explored", st.Execs)
	if st.Capped {
		r.Capped = true
	}
}

// execTwice builds the query once and executes the same Query object twice: the first time with the
// fault at invocation `at` (0: none), the second time without any fault.
func execTwice(doc map[string]any, sql string, at int) (first, second *gq.Out) {
	first, second = &gq.Out{}, &gq.Out{}
	var res *vrt.Result
	defer func() {
		if res != nil && res.GPanic != "" && second != nil {
			second.GPanic = res.GPanic
		}
	}()
	res = vrt.Run(gq.Seq, nil, func() {
		resetFaults(at)
		hOnceCounter = 0
		var q *genql.Query
		func() {
			defer func() {
				if rec := recover(); rec != nil {
					first.Panic = fmt.Sprint(rec)
				}
			}()
			var err error
			q, err = genql.New(doc, sql, genql.WithVars(map[string]any{}))
			if err != nil {
				first.Err, first.InNew = err, true
				q = nil
				return
			}
			first.Rows, first.Err = q.Exec()
		}()
		if q == nil || first.Panic != "" {
			second = nil
			return
		}
		resetFaults(0)
		func() {
			defer func() {
				if rec := recover(); rec != nil {
					second.Panic = fmt.Sprint(rec)
				}
			}()
			second.Rows, second.Err = q.Exec()
		}()
	})
	return
}

type c19kind struct{ bag bool }

// kinds: joins return a multiset (the row order is not fixed), so the twin comparison is skipped for them
func (p *c19) kinds(t *c19t) c19kind {
	return c19kind{bag: strings.Contains(t.sql, " JOIN ")}
}

func (p *c19) Meta() core.Meta {
	return core.Meta{
		Rule:        "one case per template: 75 templates with the fault point FAULT(x) / RAISE_WHEN in every clause position (WHERE connectives and operators, select list incl. star / arithmetic / CASE / function arguments / ONCE, DISTINCT, ORDER BY, LIMIT, HAVING, grouped and whole-table aggregates, CTE body / consumer / chain / double reference, derived table and consumer, select-list / IN / EXISTS subqueries incl. <- and nested queries that fail while being built (derived table, CTE, union branch inside a subquery), AWAIT-deferred evaluation in the select list of the query / a derived table / a CTE / a union branch / a nested FROM, union branches, join consumers, derived join sides (left and right operand) and join ON expressions for every join kind - for PARALLEL joins with an unmatched left key and additionally under every completion order of the per-key goroutines and every key iteration order within 1 (thorough 2) deviations -, nested FROM) and 28 templates that fail by themselves (each run three times) (type errors in every clause incl. join ON, GROUP BY / ORDER BY of non-columns, unknown functions, arity, out-of-range indices, wrong shapes, non-array FROM, non-integer LIMIT), on every table of 1..2 (thorough 3) rows over 3 archetypes; each fault template is run fault-free to count N invocations and then once per k = 1..N, without and with an UnReportedErrors handler installed. Oracle: New/Exec report an error and return no rows; then 6 follow-up queries on the same document object equal their results on a pristine copy; the failed Query object itself, executed again without the fault, returns what a fresh query returns (a self-failing one fails again). non-trivial = a failure was injected and surfaced",
		Assumptions: []string{"only synchronously evaluated steps are claimed (ASYNC / SPIN failures go to the UnReportedErrors handler)", "the type error of t2 strikes on the last row only, so a partial result would be visible"},
		Bounds:      map[string]any{"templates": len(c19Templates), "tables": len(p.tables), "followups": len(c19Followups)},
		Exhaustive:  true,
	}
}
