package props

import (
	"fmt"
	"regexp"
	"sort"
	"strings"

	"verif/harness/core"
	"verif/harness/gq"
	. "verif/harness/sqlm"
)

// C01: WHERE keeps exactly the satisfying rows, in source order.

type c01 struct {
	tier   string
	preds  []Expr
	tables [][]any // each a slice of rows
	tnames []string
}

func init() { core.Register("C01", func() core.Prop { return &c01{} }) }

func (p *c01) ID() string { return "C01" }

var (
	c01Nums = []float64{0, 1, 2, 3, 10, -1, 1.5}
	c01Strs = []string{"", "a", "b", "ab", "aB", "a.", ".", "(", "a(", "*", "a*", "[", "a\nb", "a%", "_", "B", "ba", "aab", "é", "aé", "éb", "aéb"}
)

func c01Row(id int, ia, ib int) map[string]any {
	row := map[string]any{
		"id": float64(id),
		"a":  c01Nums[ia%7],
		"a2": c01Nums[(ia+ib)%7],
		"b":  c01Strs[ib%len(c01Strs)],
		"b2": c01Strs[(ia*5+ib)%len(c01Strs)],
		"c":  (ia+ib)%2 == 0,
	}
	// a column of native Go integers (documents built by programs, not decoded from JSON)
	switch k := int(c01Nums[(ia+2*ib)%6]); id % 4 {
	case 0:
		row["k"] = k
	case 1:
		row["k"] = int64(k)
	case 2:
		row["k"] = int32(k)
	default:
		row["k"] = int16(k)
	}
	// native integers whose %v text differs from the text of the equal float64 constant (1e+06)
	row["K"] = []int{5, 1000000, 2000000, 1000001}[(ia+ib)%4]
	// a column of a narrow unsigned type, compared with constants outside the type's range
	row["u8"] = []uint8{1, 44, 200, 255}[(ia+ib)%4]
	row["i8"] = []int8{-128, -1, 44, 127}[(ia+2*ib)%4]
	// values and constants that single precision cannot hold
	row["f"] = []float64{0.1, 0.3, 2.7, 16777217, 16777216, 0.30000000000000004}[(ia+2*ib)%6]
	if ib%3 == 0 {
		row["n"] = nil
	} else {
		row["n"] = c01Nums[ib%7]
	}
	return row
}

func c01Atoms() (all []Expr, rep []Expr, small []Expr) {
	num := func(f float64) Expr { return Lit{V: f} }
	str := func(s string) Expr { return Lit{V: s} }
	a, a2, b, b2, c, n := Col{"a"}, Col{"a2"}, Col{"b"}, Col{"b2"}, Col{"c"}, Col{"n"}
	ops := []string{"=", "!=", "<", "<=", ">", ">="}
	for _, op := range ops {
		for _, k := range []float64{1, 2, 10, 1.5, -1} {
			all = append(all, Cmp{op, a, num(k)}, Cmp{op, num(k), a})
		}
		all = append(all, Cmp{op, a, a2})
		for _, k := range []string{"a", "B", "ab", "a."} {
			all = append(all, Cmp{op, b, str(k)}, Cmp{op, str(k), b})
		}
		all = append(all, Cmp{op, b, b2})
	}
	// native integer column against constants with a fractional part (and integral ones)
	k := Col{"k"}
	for _, op := range ops {
		for _, cst := range []float64{2.5, -1.5, 0.5, 2, 1.5} {
			all = append(all, Cmp{op, k, num(cst)}, Cmp{op, num(cst), k})
		}
		all = append(all, Cmp{op, k, a})
	}
	for _, op := range ops {
		for _, cst := range []float64{300, 256, -1, 44, 255.5} {
			all = append(all, Cmp{op, Col{"u8"}, num(cst)})
		}
		for _, cst := range []float64{300, -129, 128, -1} {
			all = append(all, Cmp{op, Col{"i8"}, num(cst)})
		}
	}
	for _, neg := range []bool{false, true} {
		all = append(all, In{X: Col{"u8"}, List: []Expr{num(300), num(1)}, Neg: neg}, Between{X: Col{"u8"}, Lo: num(-1), Hi: num(300), Neg: neg}, Between{X: Col{"i8"}, Lo: num(-200), Hi: num(0), Neg: neg})
	}
	fcol := Col{"f"}
	for _, op := range ops {
		for _, cst := range []float64{0.1, 0.3, 2.7, 16777217} {
			all = append(all, Cmp{op, fcol, num(cst)})
		}
	}
	for _, neg := range []bool{false, true} {
		all = append(all, In{X: fcol, List: []Expr{num(0.1), num(16777217)}, Neg: neg}, Between{X: fcol, Lo: num(0.1), Hi: num(0.3), Neg: neg}, Between{X: fcol, Lo: num(16777216.5), Hi: num(16777217), Neg: neg})
	}
	K := Col{"K"}
	for _, op := range ops {
		all = append(all, Cmp{op, K, num(1000000)}, Cmp{op, num(2000000), K})
	}
	for _, neg := range []bool{false, true} {
		all = append(all, In{X: K, List: []Expr{num(5), num(1000000)}, Neg: neg}, In{X: K, List: []Expr{num(2000000)}, Neg: neg},
			Between{X: K, Lo: num(1000000), Hi: num(1000001), Neg: neg}, In{X: a, List: []Expr{num(1000000), num(1)}, Neg: neg})
	}
	all = append(all, Cmp{"=", c, Lit{V: true}}, Cmp{"!=", c, Lit{V: false}}, Cmp{"=", c, Lit{V: false}})
	for _, neg := range []bool{false, true} {
		for _, l := range [][]float64{{1}, {10}, {1, 3}, {3, 1, 10}, {2, 2}, {1.5, -1, 0}} {
			var list []Expr
			for _, k := range l {
				list = append(list, num(k))
			}
			all = append(all, In{X: a, List: list, Neg: neg})
		}
		for _, l := range [][]string{{"a"}, {"a", "B"}, {"x", "ab", "a"}, {""}, {"a.", "("}} {
			var list []Expr
			for _, k := range l {
				list = append(list, str(k))
			}
			all = append(all, In{X: b, List: list, Neg: neg})
		}
		for _, lo := range []float64{1, 2, 10} {
			for _, hi := range []float64{1, 2, 10} {
				all = append(all, Between{X: a, Lo: num(lo), Hi: num(hi), Neg: neg})
			}
		}
		all = append(all, Between{X: a, Lo: num(-1), Hi: num(1.5), Neg: neg}, Between{X: a, Lo: a2, Hi: num(3), Neg: neg})
		all = append(all, Between{X: k, Lo: num(1.5), Hi: num(2.5), Neg: neg}, Between{X: k, Lo: num(-1.5), Hi: num(0.5), Neg: neg}, Between{X: k, Lo: num(0.5), Hi: num(3), Neg: neg})
		all = append(all, In{X: k, List: []Expr{num(2.5), num(1)}, Neg: neg}, In{X: k, List: []Expr{num(2)}, Neg: neg}, In{X: k, List: []Expr{num(0.5), num(-1.5)}, Neg: neg})
		for _, bd := range [][2]string{{"a", "b"}, {"B", "ab"}, {"a", "a"}, {"", "a."}} {
			all = append(all, Between{X: b, Lo: str(bd[0]), Hi: str(bd[1]), Neg: neg})
		}
	}
	all = append(all, InSub{X: a, Col: "n", Path: "<-u"}, InSub{X: a2, Col: "n", Path: "<-u"})
	for _, w := range []string{"NULL", "NOT NULL"} {
		all = append(all, Is{X: n, What: w})
	}
	for _, w := range []string{"TRUE", "FALSE", "NOT TRUE", "NOT FALSE"} {
		all = append(all, Is{X: c, What: w})
	}
	nonLike := len(all)
	// LIKE: every pattern of length <= 3 over the alphabet
	alpha := []string{"a", "B", "%", "_", ".", "(", "*", "[", "é"}
	pats := []string{""}
	var gen func(prefix string, left int)
	gen = func(prefix string, left int) {
		if prefix != "" {
			pats = append(pats, prefix)
		}
		if left == 0 {
			return
		}
		for _, ch := range alpha {
			gen(prefix+ch, left-1)
		}
	}
	gen("", 3)
	sort.SliceStable(pats, func(i, j int) bool { return len(pats[i]) < len(pats[j]) })
	for _, pt := range pats {
		all = append(all, Like{X: b, Pat: pt})
	}
	for _, pt := range pats {
		if len(pt) <= 2 {
			all = append(all, Like{X: b, Pat: pt, Neg: true})
		}
	}
	_ = nonLike
	// representative 40-atom set for binary connectives
	rep = []Expr{
		Cmp{"=", a, num(1)}, Cmp{"!=", a, num(10)}, Cmp{"<", a, num(2)}, Cmp{"<=", a, num(2)}, Cmp{">", a, num(2)}, Cmp{">=", a, num(10)},
		Cmp{"<", num(1.5), a}, Cmp{">=", num(-1), a}, Cmp{"<", a, a2}, Cmp{"=", a, a2},
		Cmp{"=", b, str("a")}, Cmp{"<", b, str("ab")}, Cmp{">=", b, str("B")}, Cmp{"!=", b, b2}, Cmp{">", str("a."), b},
		Cmp{"=", c, Lit{V: true}},
		In{X: a, List: []Expr{num(1), num(3)}}, In{X: a, List: []Expr{num(1), num(3)}, Neg: true}, In{X: b, List: []Expr{str("a"), str("B")}}, In{X: b, List: []Expr{str("x"), str("ab")}, Neg: true},
		InSub{X: a, Col: "n", Path: "<-u"},
		Between{X: a, Lo: num(1), Hi: num(2)}, Between{X: a, Lo: num(2), Hi: num(10), Neg: true}, Between{X: b, Lo: str("a"), Hi: str("b")}, Between{X: a, Lo: num(1), Hi: num(10)},
		Like{X: b, Pat: "a%"}, Like{X: b, Pat: "_"}, Like{X: b, Pat: "a."}, Like{X: b, Pat: "%b", Neg: true}, Like{X: b, Pat: "(%"}, Like{X: b, Pat: "a*"}, Like{X: b, Pat: "%"}, Like{X: b, Pat: "[", Neg: true}, Like{X: b, Pat: "a_b"},
		Is{X: n, What: "NULL"}, Is{X: n, What: "NOT NULL"}, Is{X: c, What: "TRUE"}, Is{X: c, What: "NOT TRUE"}, Is{X: c, What: "FALSE"},
		Cmp{"<=", a2, num(3)},
		Cmp{">=", k, num(2.5)}, Cmp{"<", num(0.5), k}, Like{X: b, Pat: "a_"}, Like{X: b, Pat: "_b", Neg: true},
	}
	small = []Expr{
		Cmp{"=", a, num(1)}, Cmp{"<", a, num(2)}, Cmp{">=", a, num(10)}, Cmp{"<", a, a2}, Cmp{"<", b, str("ab")}, Cmp{"=", c, Lit{V: true}},
		In{X: a, List: []Expr{num(1), num(3)}, Neg: true}, Between{X: a, Lo: num(1), Hi: num(2)}, Like{X: b, Pat: "a%"}, Like{X: b, Pat: "a.", Neg: true},
		Is{X: n, What: "NULL"}, Is{X: c, What: "NOT TRUE"},
	}
	return
}

func (p *c01) Init(tier string) {
	p.tier = tier
	all, rep, small := c01Atoms()
	p.preds = append(p.preds, all...)
	for _, x := range all {
		if l, ok := x.(Like); ok && len(l.Pat) > 1 {
			continue
		}
		p.preds = append(p.preds, Not{x})
	}
	for _, x := range rep {
		for _, y := range rep {
			p.preds = append(p.preds, And{x, y}, Or{x, y})
		}
	}
	if tier == "thorough" {
		for _, x := range small {
			for _, y := range small {
				for _, z := range small {
					p.preds = append(p.preds,
						And{And{x, y}, z}, Or{And{x, y}, z}, And{Or{x, y}, z}, Or{Or{x, y}, z},
						And{x, Or{y, z}}, Or{x, And{y, z}}, Not{And{x, Or{y, z}}}, And{Not{x}, Or{Not{y}, z}})
				}
			}
		}
		for _, x := range rep {
			for _, y := range rep {
				p.preds = append(p.preds, Not{And{x, y}}, Not{Or{x, y}}, And{Not{x}, y}, Or{x, Not{y}})
			}
		}
	}
	// tables: the value-universal one, then all tables of <= 4 rows over 3 archetypes
	var uni []any
	id := 0
	for ia := range c01Nums {
		for ib := range c01Strs {
			uni = append(uni, c01Row(id, ia, ib))
			id++
		}
	}
	p.tables = append(p.tables, uni)
	p.tnames = append(p.tnames, "universal(154 rows)")
	arch := [][2]int{{1, 1}, {4, 15}, {2, 3}} // (ia, ib): a=1,b="a",n=1.. ; a=10,b="B",n=NULL ; a=2,b="ab",n=NULL
	maxRows := 3
	if tier == "thorough" {
		maxRows = 4
	}
	var rec func(cur []int)
	rec = func(cur []int) {
		rows := []any{}
		for i, k := range cur {
			rows = append(rows, c01Row(i, arch[k][0], arch[k][1]))
		}
		p.tables = append(p.tables, rows)
		p.tnames = append(p.tnames, fmt.Sprintf("arch%v", cur))
		if len(cur) == maxRows {
			return
		}
		for k := range arch {
			rec(append(append([]int{}, cur...), k))
		}
	}
	rec(nil)
}

func (p *c01) NumCases() int { return len(p.preds) }

func (p *c01) Describe(i int) any {
	return map[string]any{"query": "SELECT id FROM t WHERE " + SQL(p.preds[i]), "tables": fmt.Sprintf("%d tables: universal + all of <=%d rows over 3 archetypes", len(p.tables), map[string]int{"quick": 3, "thorough": 4}[p.tier])}
}

// kinds lists the operator kinds of a predicate (for the violation signature).
func predKinds(e Expr, set map[string]bool) {
	switch e := e.(type) {
	case Cmp:
		k := "cmp"
		if _, ok := e.L.(Lit); ok {
			k = "cmp-const-left"
		}
		set[k] = true
	case And:
		set["AND"] = true
		predKinds(e.L, set)
		predKinds(e.R, set)
	case Or:
		set["OR"] = true
		predKinds(e.L, set)
		predKinds(e.R, set)
	case Not:
		set["NOT"] = true
		predKinds(e.X, set)
	case In:
		if e.Neg {
			set["NOT-IN"] = true
		} else {
			set["IN"] = true
		}
	case InSub:
		set["IN-subquery"] = true
	case Between:
		if e.Neg {
			set["NOT-BETWEEN"] = true
		} else {
			set["BETWEEN"] = true
		}
	case Like:
		k := "LIKE"
		if e.Neg {
			k = "NOT-LIKE"
		}
		if strings.ContainsAny(e.Pat, ".(*[") {
			k += "(regexp-metachar)"
		}
		set[k] = true
	case Is:
		set["IS"] = true
	}
}

func kindsString(e Expr) string {
	set := map[string]bool{}
	predKinds(e, set)
	var ks []string
	for k := range set {
		ks = append(ks, k)
	}
	sort.Strings(ks)
	return strings.Join(ks, "+")
}

func idsOf(rows []any) ([]float64, bool) {
	out := make([]float64, 0, len(rows))
	for _, r := range rows {
		m, ok := r.(map[string]any)
		if !ok {
			return nil, false
		}
		f, ok := gq.Num(m["id"])
		if !ok || len(m) != 1 {
			return nil, false
		}
		out = append(out, f)
	}
	return out, true
}

var c01ColRe = regexp.MustCompile(`\b(a2|b2|u8|i8|a|b|c|n|k|K|f)\b`)

// qualifyColumns prefixes every column name of a rendered predicate with alias. (outside string literals).
func qualifyColumns(pred, alias string) string {
	parts := strings.Split(pred, "'")
	for i := 0; i < len(parts); i += 2 {
		parts[i] = c01ColRe.ReplaceAllString(parts[i], alias+".$1")
	}
	return strings.Join(parts, "'")
}

func (p *c01) RunCase(i int) *core.CaseResult {
	defer withNoise()()
	r := &core.CaseResult{}
	defer withUsage(r, "C01")()
	pred := p.preds[i]
	sel := NewSelect("t", Item{E: Col{"id"}})
	sel.Where = pred
	sql := sel.SQL()
	selN := NewSelect("t", Item{E: Col{"id"}})
	selN.Where = Not{pred}
	sqlN := selN.SQL()
	kinds := kindsString(pred)
	for ti, rows := range p.tables {
		doc := map[string]any{"t": gq.Clone(rows), "u": []any{map[string]any{"n": 1.0}, map[string]any{"n": 10.0}}}
		env := &Env{Doc: doc}
		want, ok := Filter(rows, pred, env)
		if !ok {
			r.Unspecified++
			continue
		}
		out := gq.Run(doc, sql)
		r.Execs++
		wantIDs := make([]float64, len(want))
		for k, w := range want {
			wantIDs[k] = w.(map[string]any)["id"].(float64)
		}
		if len(want) > 0 && len(want) < len(rows) {
			r.Nontrivial = true
		}
		cs := map[string]any{"sql": sql, "doc": doc, "table": p.tnames[ti]}
		if out.Failed() || out.GPanic != "" {
			r.Fail("C01|"+kinds+"|"+out.Status(), fmt.Sprintf("%s on %s: reference keeps ids %v but the query ended with %s: %v%s", sql, p.tnames[ti], wantIDs, out.Status(), out.Err, out.Panic), cs)
			continue
		}
		got, okIDs := idsOf(out.Rows)
		if !okIDs {
			r.Fail("C01|"+kinds+"|malformed-rows", fmt.Sprintf("%s: rows are not {id}: %s", sql, gq.Render(out.Rows)), cs)
			continue
		}
		r.Outcomes = append(r.Outcomes, fmt.Sprintf("%d/%d", len(got), len(rows)))
		if fmt.Sprint(got) != fmt.Sprint(wantIDs) {
			mode := "wrong-rows"
			switch {
			case len(got) > len(wantIDs):
				mode = "extra-rows"
			case len(got) < len(wantIDs):
				mode = "missing-rows"
			}
			r.Fail("C01|"+kinds+"|"+mode, fmt.Sprintf("%s on %s: kept ids %v, reference keeps %v", sql, p.tnames[ti], got, wantIDs), cs)
			continue
		}
		// the same predicate over an aliased table (rows wrapped under the alias, columns qualified): on
		// the universal table, for every third predicate without a subquery
		if ti == 0 && i%3 == 0 && !strings.Contains(sql, "SELECT n FROM") {
			asql := "SELECT `x.id` AS id FROM t AS x WHERE " + qualifyColumns(SQL(pred), "x")
			oa := gq.Run(doc, asql)
			r.Execs++
			ga, okA := idsOf(oa.Rows)
			if oa.Failed() || !okA || fmt.Sprint(ga) != fmt.Sprint(wantIDs) {
				r.Fail("C01|"+kinds+"|aliased-table", fmt.Sprintf("%s on %s: %s %v kept ids %v, reference keeps %v", asql, p.tnames[ti], oa.Status(), oa.Err, ga, wantIDs), map[string]any{"sql": asql, "doc": doc})
			}
		}
		// law: a predicate and its negation partition the rows (implementation vs implementation)
		outN := gq.Run(doc, sqlN)
		r.Execs++
		if outN.Failed() {
			r.Fail("C01|NOT("+kinds+")|"+outN.Status(), fmt.Sprintf("%s on %s failed: %v%s", sqlN, p.tnames[ti], outN.Err, outN.Panic), map[string]any{"sql": sqlN, "doc": doc})
			continue
		}
		gotN, _ := idsOf(outN.Rows)
		merged := append(append([]float64{}, got...), gotN...)
		sort.Float64s(merged)
		okPart := len(merged) == len(rows)
		for k := range merged {
			if okPart && merged[k] != float64(k) {
				okPart = false
			}
		}
		if !okPart {
			r.Fail("C01|NOT("+kinds+")|no-partition", fmt.Sprintf("%s keeps %v and %s keeps %v: not a partition of the %d rows", sql, got, sqlN, gotN, len(rows)), map[string]any{"sql": sql, "negated": sqlN, "doc": doc})
		}
	}
	return r
}

func (p *c01) Meta() core.Meta {
	return core.Meta{
		Rule: "one case per predicate (all atoms: 6 comparison ops x col/const/col-col orientations, [NOT] IN lists, IN subquery, [NOT] BETWEEN over all bound pairs, [NOT] LIKE for every pattern of length <= 3 over {a,B,%,_,.,(,*,[}, IS [NOT] NULL/TRUE/FALSE; NOT of atoms; all AND/OR pairs over a 40-atom representative set; thorough adds depth-2 trees over a 12-atom set), each run as SELECT id FROM t WHERE p (and WHERE NOT p) on the value-universal table and on every table of <= 3 (thorough 4) rows over 3 archetypes; non-trivial = the predicate keeps a non-empty proper subset of some table",
		Assumptions: []string{
			"reference: two-valued SQL on well-typed operands (number column vs number constant, string vs string, bytewise string order, case-insensitive LIKE with only % and _ special); it abstains on NULL operands outside IS and on mixed kinds",
			"columns hold non-NULL values of one scalar kind except n (used only under IS [NOT] NULL and as subquery source without NULLs)",
		},
		Bounds:     map[string]any{"predicates": len(p.preds), "tables": len(p.tables), "max_depth": map[string]int{"quick": 1, "thorough": 2}[p.tier]},
		Exhaustive: true,
	}
}
