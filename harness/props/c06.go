package props

import (
	"fmt"
	"github.com/vedadiyan/genql"
	"strings"

	"verif/harness/core"
	"verif/harness/gq"
)

// C06: DISTINCT removes exactly the duplicates; UNION [ALL] concatenates [and dedups].

type c06case struct {
	kind     int // 0 distinct, 1 union
	list     string
	cols     []string // nil = *
	branches []int
	ops      []bool // true = UNION ALL
	limit    int
	offset   int // -1 absent
	// kind 2 (parenthesised operands with windows of their own): shape 0 (b1 op b2 LIMIT n OFFSET m) op b3,
	// 1 b1 op (b2 op b3 LIMIT n OFFSET m), 2 (b1 LIMIT n) op (b2 LIMIT m); limit / offset: the inner window
	shape int
	lim2  int
	// wrapped: built with the Wrapped option, tables named through root.
	wrapped bool // shape 2: the second operand's LIMIT; shapes 0/1: LIMIT on the whole union (-1 absent)
}

type c06 struct {
	tier   string
	cases  []c06case
	tables [][]any
	u      []any
}

func init() { core.Register("C06", func() core.Prop { return &c06{} }) }

func (p *c06) ID() string { return "C06" }

var c06Branches = []string{"SELECT a, b FROM t", "SELECT a, b FROM t WHERE b = 'q'", "SELECT a, b FROM u",
	// reads a CTE of the enclosing WITH (the statement is then prefixed with c06With)
	"SELECT a, b FROM c"}

const c06With = "WITH c AS (SELECT a, b FROM t WHERE b = 'q') "

func (p *c06) Init(tier string) {
	p.tier = tier
	for _, l := range []struct {
		s    string
		cols []string
	}{{"a", []string{"a"}}, {"b", []string{"b"}}, {"a, b", []string{"a", "b"}}, {"b, a", []string{"a", "b"}}, {"*", nil}, {"o, z", []string{"o", "z"}}, {"z, o, a", []string{"a", "o", "z"}}} {
		p.cases = append(p.cases, c06case{kind: 0, list: l.s, cols: l.cols, limit: -1, offset: -1})
		// DISTINCT with a window (no ORDER BY): the window applies to the de-duplicated sequence
		for _, lim := range []int{0, 1, 2, 3} {
			for _, off := range []int{-1, 0, 1, 2} {
				p.cases = append(p.cases, c06case{kind: 0, list: l.s, cols: l.cols, limit: lim, offset: off})
			}
		}
	}
	for _, lim := range []int{-1, 0, 2, 5} {
		for b1 := range c06Branches[:3] {
			for b2 := range c06Branches[:3] {
				for _, o1 := range []bool{false, true} {
					p.cases = append(p.cases, c06case{kind: 1, branches: []int{b1, b2}, ops: []bool{o1}, limit: lim, offset: -1})
					if lim == 2 {
						p.cases = append(p.cases, c06case{kind: 1, branches: []int{b1, b2}, ops: []bool{o1}, limit: lim, offset: 1})
					}
					if lim == 0 || lim == 5 {
						continue
					}
					for b3 := range c06Branches[:3] {
						for _, o2 := range []bool{false, true} {
							p.cases = append(p.cases, c06case{kind: 1, branches: []int{b1, b2, b3}, ops: []bool{o1, o2}, limit: lim, offset: -1})
						}
					}
				}
			}
		}
	}
	// union chains under a WITH clause: the CTE is read by the first, a middle or the last branch
	for _, bs := range [][]int{{3, 0}, {0, 3}, {3, 3}, {2, 3}, {3, 2}, {0, 3, 2}, {2, 0, 3}, {3, 2, 3}, {0, 2, 3}} {
		for m := 0; m < 1<<(len(bs)-1); m++ {
			var ops []bool
			for k := 0; k < len(bs)-1; k++ {
				ops = append(ops, m&(1<<k) != 0)
			}
			for _, lim := range []int{-1, 2} {
				p.cases = append(p.cases, c06case{kind: 1, branches: bs, ops: ops, limit: lim, offset: -1})
			}
		}
	}
	// the Wrapped option: every operand is built from the wrapped document exactly once
	for _, bs := range [][]int{{0, 2}, {2, 0}, {0, 1, 2}, {3, 0}, {0, 3}} {
		for m := 0; m < 1<<(len(bs)-1); m++ {
			var ops []bool
			for k := 0; k < len(bs)-1; k++ {
				ops = append(ops, m&(1<<k) != 0)
			}
			p.cases = append(p.cases, c06case{kind: 1, branches: bs, ops: ops, limit: -1, offset: -1, wrapped: true})
		}
	}
	for _, l := range []string{"a", "a, b", "*"} {
		cols := map[string][]string{"a": {"a"}, "a, b": {"a", "b"}, "*": nil}[l]
		p.cases = append(p.cases, c06case{kind: 0, list: l, cols: cols, limit: -1, offset: -1, wrapped: true})
	}
	// parenthesised operands that carry a LIMIT / OFFSET of their own
	for _, o1 := range []bool{false, true} {
		for _, o2 := range []bool{false, true} {
			for _, n := range []int{-1, 0, 1, 2} {
				for _, m := range []int{-1, 1} {
					if n < 0 && m >= 0 {
						continue // no window at all: the parentheses alone decide the association
					}
					for _, bs := range [][]int{{0, 2, 0}, {0, 0, 2}, {2, 1, 0}, {1, 2, 2}} {
						for _, outer := range []int{-1, 2} {
							p.cases = append(p.cases, c06case{kind: 2, shape: 0, branches: bs, ops: []bool{o1, o2}, limit: n, offset: m, lim2: outer},
								c06case{kind: 2, shape: 1, branches: bs, ops: []bool{o1, o2}, limit: n, offset: m, lim2: outer})
						}
					}
				}
			}
		}
		for _, n := range []int{0, 1, 3} {
			for _, m := range []int{0, 2} {
				for _, bs := range [][]int{{0, 0}, {0, 2}, {2, 0}} {
					p.cases = append(p.cases, c06case{kind: 2, shape: 2, branches: bs, ops: []bool{o1}, limit: n, offset: -1, lim2: m})
				}
			}
		}
	}
	if tier == "thorough" {
		for b1 := range c06Branches[:3] {
			for b2 := range c06Branches[:3] {
				for b3 := range c06Branches[:3] {
					for b4 := range c06Branches[:3] {
						for m := 0; m < 8; m++ {
							p.cases = append(p.cases, c06case{kind: 1, branches: []int{b1, b2, b3, b4}, ops: []bool{m&1 != 0, m&2 != 0, m&4 != 0}, limit: -1, offset: -1})
						}
					}
				}
			}
		}
	}
	arch := []map[string]any{
		{"a": 1.0, "b": "q"},
		{"a": "1", "b": "q"},
		{"a": "x b:y", "b": "q"},
		{"a": "x", "b": "y b:q"},
		// rows that differ only in a column that sorts after an object-valued column
		{"a": 1.0, "b": "q", "o": map[string]any{"p": 1.0, "q": 2.0}, "z": 1.0},
		{"a": 1.0, "b": "q", "o": map[string]any{"p": 1.0, "q": 2.0}, "z": 2.0},
	}
	// array-valued columns whose elements differ only in kind or in where one element ends
	arch2 := append(append([]map[string]any{}, arch...),
		map[string]any{"a": []any{"x y"}, "b": "q"},
		map[string]any{"a": []any{"x", "y"}, "b": "q"},
		map[string]any{"a": []any{1.0}, "b": "q"},
		map[string]any{"a": []any{"1"}, "b": "q"},
	)
	var rec func(set []map[string]any, cur []int, from, maxRows int)
	rec = func(set []map[string]any, cur []int, from, maxRows int) {
		if len(cur) >= from {
			rows := []any{}
			for _, k := range cur {
				rows = append(rows, gq.Clone(set[k]))
			}
			p.tables = append(p.tables, rows)
		}
		if len(cur) == maxRows {
			return
		}
		for k := range set {
			rec(set, append(append([]int{}, cur...), k), from, maxRows)
		}
	}
	// every table of <= 3 rows over the 10 archetypes; thorough: also 4-5 rows over the first 6
	rec(arch2, nil, 0, 3)
	if tier == "thorough" {
		rec(arch, nil, 4, 5)
	}
	// one larger table (every archetype several times, in a fixed irregular order)
	{
		rows := []any{}
		for i := 0; i < 41; i++ {
			rows = append(rows, gq.Clone(arch[(i*5+i/4)%len(arch)]))
		}
		p.tables = append(p.tables, rows)
	}
	p.u = []any{map[string]any{"a": "1", "b": "q"}, map[string]any{"a": 2.0, "b": "r"}, map[string]any{"a": "1", "b": "q"}}
}

func (p *c06) NumCases() int { return len(p.cases) }

func (p *c06) sqlOf(c *c06case) string {
	s := p.sqlPlain(c)
	if c.wrapped {
		s = strings.NewReplacer(" FROM t", " FROM `root.t`", " FROM u", " FROM `root.u`").Replace(s)
	}
	return s
}

func (p *c06) sqlPlain(c *c06case) string {
	if c.kind == 0 {
		q := "SELECT DISTINCT " + c.list + " FROM t"
		if c.limit >= 0 {
			q += fmt.Sprintf(" LIMIT %d", c.limit)
			if c.offset >= 0 {
				q += fmt.Sprintf(" OFFSET %d", c.offset)
			}
		}
		return q
	}
	if c.kind == 2 {
		op := func(all bool) string {
			if all {
				return " UNION ALL "
			}
			return " UNION "
		}
		win := func(n, m int) string {
			w := ""
			if n >= 0 {
				w = fmt.Sprintf(" LIMIT %d", n)
				if m >= 0 {
					w += fmt.Sprintf(" OFFSET %d", m)
				}
			}
			return w
		}
		b := func(i int) string { return c06Branches[c.branches[i]] }
		switch c.shape {
		case 0:
			return "(" + b(0) + op(c.ops[0]) + b(1) + win(c.limit, c.offset) + ")" + op(c.ops[1]) + b(2) + win(c.lim2, -1)
		case 1:
			return b(0) + op(c.ops[1]) + "(" + b(1) + op(c.ops[0]) + b(2) + win(c.limit, c.offset) + ")" + win(c.lim2, -1)
		default:
			return "(" + b(0) + win(c.limit, -1) + ")" + op(c.ops[0]) + "(" + b(1) + win(c.lim2, -1) + ")"
		}
	}
	s := c06Branches[c.branches[0]]
	for _, b := range c.branches {
		if b == 3 {
			s = c06With + s
			break
		}
	}
	for i, op := range c.ops {
		if op {
			s += " UNION ALL "
		} else {
			s += " UNION "
		}
		s += c06Branches[c.branches[i+1]]
	}
	if c.limit >= 0 {
		s += fmt.Sprintf(" LIMIT %d", c.limit)
		if c.offset >= 0 {
			s += fmt.Sprintf(" OFFSET %d", c.offset)
		}
	}
	return s
}

func (p *c06) Describe(i int) any {
	return map[string]any{"query": p.sqlOf(&p.cases[i]), "tables": fmt.Sprintf("all %d tables t of <= %d rows over 4 archetypes that collide under %%v; u fixed", len(p.tables), map[string]int{"quick": 3, "thorough": 5}[p.tier])}
}

func dedupRendered(rows []string) []string {
	seen := map[string]bool{}
	out := []string{}
	for _, r := range rows {
		if !seen[r] {
			seen[r] = true
			out = append(out, r)
		}
	}
	return out
}

func (p *c06) branchRows(b int, t []any) []string {
	var src []any
	switch b {
	case 0:
		src = t
	case 1, 3:
		for _, r := range t {
			if r.(map[string]any)["b"] == "q" {
				src = append(src, r)
			}
		}
	case 2:
		src = p.u
	}
	out := make([]string, 0, len(src))
	for _, r := range src {
		m := r.(map[string]any)
		out = append(out, gq.Render(map[string]any{"a": m["a"], "b": m["b"]}))
	}
	return out
}

func (p *c06) RunCase(i int) *core.CaseResult {
	defer withNoise()()
	r := &core.CaseResult{}
	defer withUsage(r, "C06")()
	c := &p.cases[i]
	sql := p.sqlOf(c)
	for _, rows := range p.tables {
		doc := map[string]any{"t": gq.Clone(rows), "u": gq.Clone(p.u)}
		var want []string
		var sig string
		if c.kind == 0 {
			for _, row := range rows {
				m := row.(map[string]any)
				proj := map[string]any{}
				if c.cols == nil {
					proj = m
				} else {
					for _, k := range c.cols {
						proj[k] = m[k] // a missing key projects as NULL
					}
				}
				want = append(want, gq.Render(proj))
			}
			before := len(want)
			want = dedupRendered(want)
			if len(want) < before && len(want) > 1 {
				r.Nontrivial = true
			}
			want = window(want, c.limit, c.offset)
			sig = fmt.Sprintf("C06|distinct|list=%s|window=%v|", c.list, c.limit >= 0)
		} else if c.kind == 2 {
			union := func(x, y []string, all bool) []string {
				z := append(append([]string{}, x...), y...)
				if !all {
					z = dedupRendered(z)
				}
				return z
			}
			b := func(i int) []string { return p.branchRows(c.branches[i], rows) }
			switch c.shape {
			case 0:
				want = window(union(window(union(b(0), b(1), c.ops[0]), c.limit, c.offset), b(2), c.ops[1]), c.lim2, -1)
			case 1:
				want = window(union(b(0), window(union(b(1), b(2), c.ops[0]), c.limit, c.offset), c.ops[1]), c.lim2, -1)
			default:
				want = union(window(b(0), c.limit, -1), window(b(1), c.lim2, -1), c.ops[0])
			}
			if len(want) > 0 {
				r.Nontrivial = true
			}
			sig = fmt.Sprintf("C06|union-nested|shape=%d|", c.shape)
		} else {
			want = p.branchRows(c.branches[0], rows)
			for k, all := range c.ops {
				want = append(want, p.branchRows(c.branches[k+1], rows)...)
				if !all {
					n := len(want)
					want = dedupRendered(want)
					if len(want) < n {
						r.Nontrivial = true
					}
				}
			}
			want = window(want, c.limit, c.offset)
			var ops []string
			for _, o := range c.ops {
				if o {
					ops = append(ops, "ALL")
				} else {
					ops = append(ops, "DISTINCT")
				}
			}
			sig = fmt.Sprintf("C06|union|branches=%d|ops=%s|limit=%v|", len(c.branches), strings.Join(ops, ","), c.limit >= 0)
		}
		gq.ReExec = true
		var copts []genql.QueryOption
		if c.wrapped {
			copts = append(copts, genql.Wrapped())
		}
		out := gq.Run(doc, sql, copts...)
		gq.ReExec = false
		r.Execs++
		cs := map[string]any{"sql": sql, "doc": doc}
		for k, again := range out.Again {
			if again != out.First {
				r.Fail(sig+"repeated-exec-differs", fmt.Sprintf("%s on t=%s: Exec #%d of the same Query returned %s, Exec #1 returned %s", sql, gq.Render(rows), k+2, again, out.First), cs)
				break
			}
		}
		if out.Failed() || out.GPanic != "" {
			r.Fail(sig+out.Status(), fmt.Sprintf("%s on t=%s: %s: %v%s", sql, gq.Render(rows), out.Status(), out.Err, out.Panic), cs)
			continue
		}
		got := gq.RenderRows(out.Rows)
		if !gq.SameSeq(got, want) {
			mode := "wrong-rows"
			switch {
			case len(got) < len(want):
				mode = "missing-rows"
			case len(got) > len(want):
				mode = "extra-rows"
			case gq.SameBag(got, want):
				mode = "order"
			}
			r.Fail(sig+mode, fmt.Sprintf("%s on t=%s: got %v, want %v", sql, gq.Render(rows), got, want), cs)
			continue
		}
		r.Outcomes = append(r.Outcomes, fmt.Sprintf("%d->%d", len(rows), len(got)))
	}
	return r
}

// window applies LIMIT / OFFSET (-1: absent) to a sequence.
func window(rows []string, limit, offset int) []string {
	if limit < 0 {
		return rows
	}
	lo := 0
	if offset > 0 {
		lo = offset
	}
	if lo > len(rows) {
		lo = len(rows)
	}
	hi := lo + limit
	if hi > len(rows) {
		hi = len(rows)
	}
	return rows[lo:hi]
}

func (p *c06) Meta() core.Meta {
	return core.Meta{
		Rule: "DISTINCT cases: 7 select lists (1-3 columns incl. an object-valued one, *), each also with LIMIT 0..3 / OFFSET absent,0..2 (no ORDER BY: the window applies to the de-duplicated sequence); UNION cases: every chain of 2-3 (thorough 4) branches over 3 branch queries with every mix of UNION / UNION ALL, without and with LIMIT; a subset also built with the Wrapped option; chains under a WITH clause whose CTE is read by the first, a middle or the last branch; parenthesised operands that carry a LIMIT / OFFSET of their own (left- and right-nested unions with and without a window on the parenthesised operand, windowed single branches); each on every table of <= 3 rows over 10 archetypes (thorough: also 4-5 rows over the first 6) and one table of 41 rows chosen to collide under %v ({a:1}/{a:\"1\"}, {a:\"x b:y\",b:\"q\"}/{a:\"x\",b:\"y b:q\"}); every successfully executed Query object is executed two more times and must return the same rows; non-trivial = a duplicate was actually removed and more than one row remains",
		Assumptions: []string{
			"two rows are duplicates iff they have the same keys and type-identical values (the number 1 and the string \"1\" are different values)",
			"chains associate to the left: (A op1 B) op2 C",
		},
		Bounds:     map[string]any{"cases": len(p.cases), "tables": len(p.tables)},
		Exhaustive: true,
	}
}
