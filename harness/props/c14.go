package props

import (
	"fmt"
	"strings"

	"github.com/vedadiyan/genql"
	"github.com/vedadiyan/genql/vrt"
	"verif/harness/core"
	"verif/harness/gq"
)

// C14: ASYNC / SPIN / SPINASYNC / ONCE change when a function runs, never what the query returns.
//
// The harness registers SQL functions whose bodies contain vrt.Yield() points, so the set of
// explored schedules is the set of relative latencies of the calls.  Every schedule with at most
// `bound` preemptions is executed on the real engine (go statements and sync operations routed
// through the controlled scheduler) and the per-thread event log is checked.

const (
	evStart = 1
	evEnd   = 2
	evRet   = 3 // Exec returned (logged by the harness thread)
)

var hOnceCounter int64

func init() {
	// HSLOW(x): two latency points, returns 2x.  HFAST(x): no latency point.  HONCE(): invocation counter.
	genql.RegisterFunction("hslow", func(q *genql.Query, cur genql.Map, fo *genql.FunctionOptions, args []any) (any, error) {
		x, _ := gq.Num(args[0])
		vrt.Log(evStart, 1, int64(x))
		vrt.Yield()
		vrt.Yield()
		vrt.Log(evEnd, 1, int64(x))
		return 2 * x, nil
	})
	genql.RegisterFunction("hfast", func(q *genql.Query, cur genql.Map, fo *genql.FunctionOptions, args []any) (any, error) {
		x, _ := gq.Num(args[0])
		vrt.Log(evStart, 2, int64(x))
		vrt.Log(evEnd, 2, int64(x))
		return 3 * x, nil
	})
	genql.RegisterFunction("hmid", func(q *genql.Query, cur genql.Map, fo *genql.FunctionOptions, args []any) (any, error) {
		x, _ := gq.Num(args[0])
		vrt.Log(evStart, 4, int64(x))
		vrt.Yield()
		vrt.Log(evEnd, 4, int64(x))
		return x + 100, nil
	})
	genql.RegisterFunction("hawaited", func(q *genql.Query, cur genql.Map, fo *genql.FunctionOptions, args []any) (any, error) {
		x, _ := gq.Num(args[0])
		vrt.Log(evStart, 9, int64(x))
		vrt.Yield()
		vrt.Log(evEnd, 9, int64(x))
		return x + 200, nil
	})
	// HFAILODD(x): fails (returns an error) for odd x, x + 7 otherwise; HPANICODD panics for odd x
	genql.RegisterFunction("hfailodd", func(q *genql.Query, cur genql.Map, fo *genql.FunctionOptions, args []any) (any, error) {
		x, _ := gq.Num(args[0])
		vrt.Log(evStart, 6, int64(x))
		vrt.Yield()
		vrt.Log(evEnd, 6, int64(x))
		if int64(x)%2 != 0 {
			return nil, fmt.Errorf("hfailodd(%v)", x)
		}
		return x + 7, nil
	})
	genql.RegisterFunction("hpanicodd", func(q *genql.Query, cur genql.Map, fo *genql.FunctionOptions, args []any) (any, error) {
		x, _ := gq.Num(args[0])
		vrt.Log(evStart, 7, int64(x))
		vrt.Yield()
		vrt.Log(evEnd, 7, int64(x))
		if int64(x)%2 != 0 {
			panic(fmt.Errorf("hpanicodd(%v)", x))
		}
		return x + 8, nil
	})
	genql.RegisterFunction("hspin", func(q *genql.Query, cur genql.Map, fo *genql.FunctionOptions, args []any) (any, error) {
		x, _ := gq.Num(args[0])
		vrt.Log(evStart, 5, int64(x))
		vrt.Yield()
		vrt.Log(evEnd, 5, int64(x))
		return x, nil
	})
	genql.RegisterFunction("honce", func(q *genql.Query, cur genql.Map, fo *genql.FunctionOptions, args []any) (any, error) {
		hOnceCounter++
		vrt.Log(evStart, 3, hOnceCounter)
		vrt.Yield()
		vrt.Log(evEnd, 3, hOnceCounter)
		return float64(hOnceCounter), nil
	})
	// HNILONCE(): called for its side effect, returns NULL
	genql.RegisterFunction("hnilonce", func(q *genql.Query, cur genql.Map, fo *genql.FunctionOptions, args []any) (any, error) {
		vrt.Log(evStart, 8, 0)
		vrt.Yield()
		vrt.Log(evEnd, 8, 0)
		return nil, nil
	})
}

type c14item struct {
	sql    string // with %s for the argument column
	col    string // output column ("" = adds none)
	fn     int64  // function id in the event log (0: no call)
	mul    func(x float64) any
	waited bool // must have completed when Exec returns
	once   bool
	null   bool // the function returns NULL
}

var c14Items = []c14item{
	{sql: "id", col: "id"},
	{sql: "HSLOW(%s) AS u", col: "u", fn: 1, mul: func(x float64) any { return 2 * x }, waited: true},
	{sql: "ASYNC.HSLOW(%s) AS s", col: "s", fn: 1, mul: func(x float64) any { return 2 * x }, waited: true},
	{sql: "ASYNC.HFAST(%s) AS f", col: "f", fn: 2, mul: func(x float64) any { return 3 * x }, waited: true},
	{sql: "SPINASYNC.HSLOW(%s)", fn: 1, waited: true},
	{sql: "SPIN.HSPIN(%s)", fn: 5},
	{sql: "ONCE.HONCE() AS o", col: "o", fn: 3, waited: true, once: true},
	{sql: "ONCE.HNILONCE() AS z", col: "z", fn: 8, waited: true, once: true, null: true},
	{sql: "ASYNC.HMID(%s) AS m", col: "m", fn: 4, mul: func(x float64) any { return x + 100 }, waited: true},
	// an ASYNC call that is awaited explicitly: the call starts when the deferred item is evaluated,
	// and it is still invoked once per row, completed before Exec returns, and its value is in the row
	{sql: "AWAIT(ASYNC.HAWAITED(%s)) AS w", col: "w", fn: 9, mul: func(x float64) any { return x + 200 }, waited: true},
	// calls that fail on some rows (the error goes to the UnReportedErrors handler): the query still
	// returns, every call was invoked once and has completed, the failing row's column is NULL
	{sql: "ASYNC.HFAILODD(%s) AS e", col: "e", fn: 6, mul: func(x float64) any {
		if int64(x)%2 != 0 {
			return nil
		}
		return x + 7
	}, waited: true},
	{sql: "SPINASYNC.HPANICODD(%s)", fn: 7, waited: true},
	{sql: "ASYNC.HPANICODD(%s) AS pe", col: "pe", fn: 7, mul: func(x float64) any {
		if int64(x)%2 != 0 {
			return nil
		}
		return x + 8
	}, waited: true},
}

type c14case struct {
	items []int
	form  int // 0 direct, 1 derived table, 2 CTE, 3 row-scoped subquery, 4 immediate-function rejection
	rows  int
	imm   string
	dup   bool // every row carries the same argument value: calls with equal arguments are still one call per row
}

var c14Forms = []string{"direct", "derived-table", "cte", "row-subquery", "immediate", "nested-from", "join-side", "awaited-by-outer-query", "join-right-side", "cte-over-nested-from", "nested-from-3d"}

type c14 struct {
	tier  string
	cases []c14case
	bound int
}

func init() { core.Register("C14", func() core.Prop { return &c14{} }) }

func (p *c14) ID() string { return "C14" }

func (p *c14) Init(tier string) {
	p.tier = tier
	p.bound = 2
	maxItems, maxRows := 2, 2
	if tier == "thorough" {
		maxItems, maxRows = 3, 3
		p.bound = 3
	}
	var lists [][]int
	var rec func(cur []int)
	rec = func(cur []int) {
		if len(cur) > 0 {
			calls := 0
			for _, k := range cur {
				if c14Items[k].fn != 0 {
					calls++
				}
			}
			if calls > 0 {
				lists = append(lists, append([]int{}, cur...))
			}
		}
		if len(cur) == maxItems {
			return
		}
		for k := range c14Items {
			dup := false
			for _, c := range cur {
				if c == k {
					dup = true
				}
			}
			if !dup {
				rec(append(cur, k))
			}
		}
	}
	rec(nil)
	for i := 1; i < len(lists); i++ {
		for j := i; j > 0 && len(lists[j]) < len(lists[j-1]); j-- {
			lists[j], lists[j-1] = lists[j-1], lists[j]
		}
	}
	for _, form := range []int{0, 1, 2, 3, 5, 6, 7, 8, 9, 10} {
		for _, l := range lists {
			for rows := 0; rows <= maxRows; rows++ {
				if form != 0 && (rows == 0 || len(l) > 2) {
					continue
				}
				calls := 0
				for _, k := range l {
					if c14Items[k].fn != 0 && !c14Items[k].once {
						calls++
					}
				}
				// keep the number of library goroutines per scenario small: the schedule space grows
				// with (threads)! at every free switch
				if tier == "quick" && form != 0 && calls*rows > 2 {
					continue
				}
				if calls*rows > 4 {
					continue
				}
				// the deeper forms multiply the forwarding goroutines: single items, <= 2 calls
				if (form == 9 || form == 10) && (len(l) > 1 || calls*rows > 2) {
					continue
				}
				// three dimensions: a chain of three waiters per call - one row (thorough: two)
				if form == 10 && calls*rows > 1 && tier == "quick" {
					continue
				}
				if form == 7 {
					// the README's use of AWAIT: the outer query awaits the columns of a derived table
					cols := 0
					for _, k := range l {
						if c14Items[k].col != "" {
							cols++
						}
					}
					if cols == 0 {
						continue
					}
				}
				p.cases = append(p.cases, c14case{items: l, form: form, rows: rows})
			}
		}
	}
	// rows with equal arguments: "once per row" is not "once per distinct argument", whatever the
	// overlap of the calls in time
	for k, it := range c14Items {
		if it.fn == 0 || it.once {
			continue
		}
		for rows := 2; rows <= maxRows && rows <= 3; rows++ {
			if tier == "quick" && rows > 2 {
				continue
			}
			p.cases = append(p.cases, c14case{items: []int{k}, form: 0, rows: rows, dup: true})
			if strings.HasPrefix(it.sql, "ASYNC.") && rows == 2 {
				p.cases = append(p.cases, c14case{items: []int{0, k}, form: 0, rows: rows, dup: true})
			}
		}
	}
	for _, q := range []string{"ASYNC", "SPIN", "SPINASYNC"} {
		for _, f := range []string{"TO_LOWER('A')", "GETVAR('k')", "SUM(a)", "CONSTANT('c')", "HIMM_LATE(a)"} {
			p.cases = append(p.cases, c14case{form: 4, rows: 2, imm: q + "." + f})
		}
	}
}

func (p *c14) NumCases() int { return len(p.cases) + 1 }

func (p *c14) build(c *c14case) (mk func() map[string]any, sql string, argCol string) {
	argCol = "a"
	if c.form == 3 {
		argCol = "b"
	}
	var parts []string
	for _, k := range c.items {
		it := c14Items[k]
		s := it.sql
		if strings.Contains(s, "%s") {
			s = fmt.Sprintf(s, argCol)
		}
		parts = append(parts, s)
	}
	list := strings.Join(parts, ", ")
	switch c.form {
	case 0:
		sql = "SELECT " + list + " FROM t"
	case 1:
		sql = "SELECT * FROM (SELECT " + list + " FROM t) AS d"
	case 2:
		sql = "WITH c AS (SELECT " + list + " FROM t) SELECT * FROM c"
	case 3:
		sql = "SELECT id, (SELECT " + list + " FROM items) AS sub FROM t"
	case 4:
		sql = "SELECT id, " + c.imm + " AS x FROM t"
	case 5:
		sql = "SELECT " + list + " FROM m"
	case 6:
		sql = "SELECT * FROM (SELECT " + list + ", id AS jid FROM t) x JOIN u y ON x.jid = y.rid"
	case 9:
		sql = "WITH c AS (SELECT " + list + " FROM m) SELECT * FROM c"
	case 10:
		sql = "SELECT " + list + " FROM cube"
	case 8:
		sql = "SELECT * FROM u y JOIN (SELECT " + list + ", id AS jid FROM t) x ON x.jid = y.rid"
	case 7:
		var outer []string
		for _, k := range c.items {
			if col := c14Items[k].col; col != "" {
				outer = append(outer, fmt.Sprintf("AWAIT(d.%s) AS %s", col, col))
			}
		}
		sql = "SELECT " + strings.Join(outer, ", ") + " FROM (SELECT " + list + " FROM t) AS d"
	}
	rows := c.rows
	dup := c.dup
	mk = func() map[string]any {
		t := []any{}
		for i := 0; i < rows; i++ {
			row := map[string]any{"id": float64(i), "a": float64(10 + i)}
			if dup {
				row["a"] = 10.0
			}
			row["items"] = []any{map[string]any{"id": float64(100 + i), "b": float64(20 + i)}}
			t = append(t, row)
		}
		u := []any{}
		for i := 0; i < rows; i++ {
			u = append(u, map[string]any{"rid": float64(i)})
		}
		// nested FROM: every row in an inner array of its own (one copy of the query per inner array)
		m := []any{}
		for _, row := range t {
			m = append(m, []any{gq.Clone(row)})
		}
		// three dimensions: every row two arrays deep (copies of copies of the query)
		cube := []any{}
		for _, row := range t {
			cube = append(cube, []any{[]any{gq.Clone(row)}})
		}
		return map[string]any{"t": t, "m": m, "u": u, "cube": cube}
	}
	return
}

func (p *c14) Describe(i int) any {
	if i == len(p.cases) {
		return map[string]any{"kind": "a Query executed again after an execution that failed part-way (fault point behind the qualified call, at every row): ASYNC.HSLOW, SPINASYNC.HSLOW, ASYNC.HFAST x 1-2 rows; in the second execution every call is invoked once per row and awaited", "schedules": fmt.Sprintf("all schedules with <= %d preemptions", p.bound)}
	}
	c := &p.cases[i]
	_, sql, _ := p.build(c)
	return map[string]any{"query": sql, "rows": c.rows, "form": c14Forms[c.form], "schedules": fmt.Sprintf("all schedules with <= %d preemptions (harness functions yield 0-2 times)", p.bound)}
}

// expected builds the rows the query must return (inner rows for the nested forms).
func (p *c14) expected(c *c14case) []string {
	var out []string
	for i := 0; i < c.rows; i++ {
		arg := float64(10 + i)
		if c.dup {
			arg = 10
		}
		id := float64(i)
		if c.form == 3 {
			arg = float64(20 + i)
			id = float64(100 + i)
		}
		row := map[string]any{}
		for _, k := range c.items {
			it := c14Items[k]
			switch {
			case it.col == "":
			case it.col == "id":
				row["id"] = id
			case it.null:
				row[it.col] = nil
			case it.once:
				row[it.col] = 1.0
				if c.form == 3 {
					row[it.col] = float64(i + 1) // every row-scoped subquery is a query of its own
				}
			default:
				row[it.col] = it.mul(arg)
			}
		}
		var full any = row
		switch c.form {
		case 1:
			full = map[string]any{"d": row}
		case 3:
			full = map[string]any{"id": float64(i), "sub": []any{row}}
		}
		out = append(out, gq.Render(full))
	}
	if c.form == 5 || c.form == 9 {
		// every row sits in an inner array of its own: the result keeps the nesting
		for i := range out {
			out[i] = "[" + out[i] + "]"
		}
		return out
	}
	if c.form == 10 {
		for i := range out {
			out[i] = "[[" + out[i] + "]]"
		}
		return out
	}
	return out
}

func (p *c14) sig(c *c14case, mode string) string {
	var names []string
	for _, k := range c.items {
		s := c14Items[k].sql
		if j := strings.IndexAny(s, "( "); j > 0 {
			s = s[:j]
		}
		names = append(names, s)
	}
	if c.form == 4 {
		names = []string{c.imm}
	}
	form := c14Forms[c.form]
	if c.dup {
		form += "-equal-arguments"
	}
	return fmt.Sprintf("C14|%s|%s|%s", form, strings.Join(names, "+"), mode)
}

func (p *c14) RunCase(i int) *core.CaseResult {
	r := &core.CaseResult{}
	if i == len(p.cases) {
		runChangedC14(r, p.bound)
		return r
	}
	c := &p.cases[i]
	mk, sql, _ := p.build(c)
	want := p.expected(c)
	outcomes := map[string]bool{}
	cfg := vrt.Config{Sched: true, Quiet: true}
	vrt.SetQuiet(genql.VerifSelectorMutex())
	var cur *gq.Out
	run := func(prefix []int32) *vrt.Result {
		doc := mk()
		genql.VerifResetSelectorCache()
		hOnceCounter = 0
		cur = &gq.Out{}
		cur.Res = vrt.Run(cfg, prefix, func() {
			gq.Call(cur, doc, sql, genql.WithVars(map[string]any{}), genql.WithConstants(map[string]any{"c": 1.0}), genql.UnReportedErrors(func(error) {}))
			vrt.Log(evRet, 0, 0)
		})
		cur.GPanic = cur.Res.GPanic
		return cur.Res
	}
	if c.form == 4 && strings.Contains(c.imm, "HIMM_LATE") {
		// an immediate function registered after queries have already been executed in this process
		gq.Run(mk(), "SELECT TO_LOWER('A') AS x FROM t")
		genql.RegisterImmediateFunction("himm_late", func(q *genql.Query, cur genql.Map, fo *genql.FunctionOptions, args []any) (any, error) {
			vrt.Log(evStart, 9, 0)
			return 1.0, nil
		})
	}
	check := func(prefix []int32, res *vrt.Result) bool {
		o := cur
		cs := map[string]any{"sql": sql, "doc": mk(), "choices": prefix}
		fail := func(mode, msg string) bool {
			r.Fail(p.sig(c, mode), fmt.Sprintf("%s on %d rows, schedule %v: %s", sql, c.rows, prefix, msg), cs)
			return false
		}
		if c.form == 4 {
			outcomes[o.Status()] = true
			if o.Panic != "" || o.GPanic != "" {
				return fail("panic", "panic instead of an error: "+o.Panic+o.GPanic)
			}
			if o.Err == nil {
				return fail("accepted", "an immediate function accepted the qualifier: rows "+gq.Render(o.Rows))
			}
			for _, e := range res.Events {
				if e.Tag == evStart {
					return fail("invoked", "rejected but a function was invoked")
				}
			}
			return true
		}
		if o.Failed() || o.GPanic != "" {
			return fail(o.Status(), fmt.Sprintf("ended with %s: %v %s %s", o.Status(), o.Err, o.Panic, o.GPanic))
		}
		// event log: invocations per (function, argument), completion before Exec returned
		type key struct{ fn, arg int64 }
		starts, endsBefore, endsAfter := map[key]int{}, map[key]int{}, map[key]int{}
		returned := false
		for _, e := range res.Events {
			switch e.Tag {
			case evRet:
				returned = true
			case evStart:
				starts[key{e.A, e.B}]++
			case evEnd:
				if returned {
					endsAfter[key{e.A, e.B}]++
				} else {
					endsBefore[key{e.A, e.B}]++
				}
			}
		}
		for _, k := range c.items {
			it := c14Items[k]
			if it.fn == 0 {
				continue
			}
			n := 0
			for _, k2 := range c.items {
				if c14Items[k2].fn == it.fn && !c14Items[k2].once {
					n++
				}
			}
			if it.once {
				total := 0
				for kk, v := range starts {
					if kk.fn == it.fn {
						total += v
					}
				}
				wantCalls := 1
				if c.rows == 0 {
					wantCalls = 0
				}
				if c.form == 3 {
					wantCalls = c.rows // one subquery (hence one query) per outer row
				}
				if total != wantCalls {
					return fail("once-invocations", fmt.Sprintf("ONCE function invoked %d times, want %d", total, wantCalls))
				}
				continue
			}
			for row := 0; row < c.rows; row++ {
				arg := int64(10 + row)
				if c.form == 3 {
					arg = int64(20 + row)
				}
				want := n
				if c.dup {
					arg = 10
					want = n * c.rows
				}
				kk := key{it.fn, arg}
				if starts[kk] != want {
					return fail("invocations", fmt.Sprintf("function %d invoked %d times for argument %d, want %d (once per row per call)", it.fn, starts[kk], arg, want))
				}
				if it.waited && endsAfter[kk] > 0 {
					return fail("not-awaited", fmt.Sprintf("function %d(%d): a call that must be awaited completed after Exec returned", it.fn, arg))
				}
			}
		}
		got := gq.RenderRows(o.Rows)
		outcomes[strings.Join(got, ";")] = true
		if c.form == 6 || c.form == 8 {
			// join side: the event log above decides (invoked once per row, awaited); the rows must
			// at least be plain data (no unresolved slot)
			if s := gq.Plain(o.Rows); s != "" {
				return fail("unresolved-slot", "rows are not plain data: "+s+": "+gq.Render(o.Rows))
			}
			return true
		}
		if !gq.SameSeq(got, want) {
			mode := "rows"
			if s := gq.Plain(o.Rows); s != "" {
				mode = "unresolved-slot"
			}
			return fail(mode, fmt.Sprintf("rows %v, want %v", got, want))
		}
		return true
	}
	bound := p.bound
	if p.tier == "thorough" && len(c.items)*c.rows > 2 {
		bound = 2
	}
	e := newExplorer(run, check, 400000)
	e.Explore(bound)
	st := &e.Stats
	r.Execs = st.Execs
	r.Transitions = st.Transitions
	r.States = int64(len(st.States))
	r.BoundDone = st.BoundDone
	r.Capped = st.Capped
	r.Nontrivial = st.Execs > 1 && len(r.Viol) == 0
	r.Count("max_threads", int64(st.MaxThreads))
	for k := range outcomes {
		r.Outcomes = append(r.Outcomes, k)
	}
	if len(r.Viol) > 0 {
		r.BoundDone = bound // the exploration stopped at the first violation; no cap was hit
	}
	return r
}

func (p *c14) Meta() core.Meta {
	return core.Meta{
		Rule: "one case per (select list of 1-2 (thorough 3) distinct items over {id, HSLOW, ASYNC.HSLOW, ASYNC.HFAST, SPINASYNC.HSLOW, SPIN.HSPIN, ONCE.HONCE, ONCE.HNILONCE (returns NULL), ASYNC.HMID, ASYNC.HFAILODD, SPINASYNC.HPANICODD, ASYNC.HPANICODD (calls that fail or panic on odd rows)}, form in {direct, derived table, CTE, row-scoped subquery, nested FROM (array of arrays), derived table as left / right join side, CTE over a nested FROM, three-dimensional FROM, derived table awaited by the outer query}, 0-2 (thorough 3) rows) plus immediate functions under ASYNC/SPIN/SPINASYNC (built-in ones and one registered after queries have already run); each case = stateless exploration of every schedule with <= 2 (thorough 3) preemptions of the real engine (library go statements, mutex / wait-group operations and the harness functions' latency points are scheduling points); oracle on every schedule from the event log and the result. non-trivial = more than one schedule was executed; one re-execution case (a Query executed again after an execution that failed at every row behind ASYNC.HSLOW / SPINASYNC.HSLOW / ASYNC.HFAST, 1-2 rows, every schedule within the bound); every item also on rows with equal argument values; a 13th item AWAIT(ASYNC.f(x))",
		Assumptions: []string{
			"harness functions are deterministic and model latency only by yielding to the scheduler; their results do not depend on the schedule",
			"scheduling points at sync operations, go statements, thread exit and harness yields (sufficient for race-free executions, DRF-SC; races are C13's matter)",
		},
		Bounds:     map[string]any{"preemption_bound": p.bound, "scenarios": len(p.cases)},
		Exhaustive: true,
	}
}
