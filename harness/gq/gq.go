// Package gq runs the real genql API inside controlled executions and offers the value utilities
// (deep copy, canonical rendering, plain-data walk) shared by the property drivers.
package gq

import (
	"fmt"
	"math"
	"reflect"
	"sort"
	"strconv"
	"strings"

	"github.com/vedadiyan/genql"
	"github.com/vedadiyan/genql/vrt"
	"verif/harness/explore"
)

type Out struct {
	Rows   []any
	Err    error
	Panic  string // a panic that escaped New / Exec ("" if none)
	GPanic string // a panic that reached the top of a library goroutine
	InNew  bool   // Err / Panic happened in New
	Res    *vrt.Result
	q      *genql.Query
	First  string   // with ReExec: the first result, rendered
	Again  []string // with ReExec: the results of the second and third Exec of the same Query
}

func (o *Out) Failed() bool { return o.Err != nil || o.Panic != "" }

// Status is a short fingerprint of how the call ended.
func (o *Out) Status() string {
	switch {
	case o.Panic != "":
		return "panic"
	case o.GPanic != "":
		return "goroutine-panic"
	case o.Err != nil:
		return "error"
	}
	return "ok"
}

var Seq = vrt.Config{}

// Run executes New+Exec as a controlled execution with default choices.
func Run(doc map[string]any, sql string, opts ...genql.QueryOption) *Out {
	return RunCfg(Seq, nil, doc, sql, opts...)
}

// BeforeRun, when set, is called before every controlled New+Exec (not recursively).  The
// history-independence checks use it to put other - mostly failing - operations in front of every
// execution whose result is compared with a reference.
var BeforeRun func()
var inBeforeRun bool

func RunCfg(cfg vrt.Config, prefix []int32, doc map[string]any, sql string, opts ...genql.QueryOption) *Out {
	if BeforeRun != nil && !inBeforeRun {
		inBeforeRun = true
		BeforeRun()
		inBeforeRun = false
	}
	o := &Out{}
	// the usage differential belongs to plain sequential runs, not to explored executions
	o.Res = vrt.Run(cfg, prefix, func() { Call(o, doc, sql, opts...) })
	o.GPanic = o.Res.GPanic
	if Usage != nil && !inUsage && !(cfg.Sched || cfg.MapOrder) && !usageSkip(sql) && o.q != nil && o.Err == nil && o.Panic == "" && o.GPanic == "" {
		inUsage = true
		usageChecks(o, doc, sql, opts)
		inUsage = false
	}
	o.q = nil
	return o
}

// Call performs New+Exec on the calling thread (which must be a controlled thread or run outside
// any controlled execution), converting an escaping panic into o.Panic.
func Call(o *Out, doc map[string]any, sql string, opts ...genql.QueryOption) {
	stage := 0
	defer func() {
		if r := recover(); r != nil {
			o.Panic = fmt.Sprintf("%v", r)
			o.InNew = stage == 0
			o.Rows = nil
		}
	}()
	q, err := genql.New(doc, sql, opts...)
	if err != nil {
		o.Err = err
		o.InNew = true
		return
	}
	stage = 1
	rows, err := q.Exec()
	o.Rows, o.Err = rows, err
	o.q = q
	if ReExec && err == nil {
		// the same Query object executed again (and again): rendered results of the repetitions
		first := Render(rows)
		for k := 0; k < 2; k++ {
			rows2, err2 := q.Exec()
			if err2 != nil {
				o.Again = append(o.Again, "error: "+err2.Error())
				continue
			}
			o.Again = append(o.Again, Render(rows2))
		}
		o.First = first
	}
}

// Usage, when set, receives a description of every discrepancy found by the API-usage differential
// that Call then performs on every successfully executed query:
//   - the rows of the first result are edited (keys added, values overwritten, rows swapped) and the
//     same Query is executed again: it must return what it returned the first time - a result is the
//     caller's to keep and to change, it must not be wired into the Query or into the document;
//   - the document must not change when a result is edited at its top level;
//   - a query built without options must return the same through Parse + Prepare(doc, stmt, &Options{})
//     (the exported pieces New is made of) - built twice from one parsed statement, executed on
//     fresh copies of the document.
var Usage func(what string)
var inUsage bool

// UsageForcePrepare runs the Parse + Prepare path also for queries built with options (which that
// path cannot reproduce): then only "the document is not modified" is checked.
var UsageForcePrepare bool

// sameResult compares two rendered results: as sequences, or - for joins, whose row order is not
// fixed - as multisets of rows.
func sameResult(sql string, a, b []any) bool {
	if Render(a) == Render(b) {
		return true
	}
	if !strings.Contains(sql, " JOIN ") || len(a) != len(b) {
		return false
	}
	x, y := RenderRows(a), RenderRows(b)
	sort.Strings(x)
	sort.Strings(y)
	return SameSeq(x, y)
}

// usageSkip: statements that call harness functions with a state of their own (fault counters,
// invocation counters) or write variables do not return the same when they are executed again.
func usageSkip(sql string) bool {
	for _, w := range []string{"FAULT", "HONCE", "SETVAR", "HPOKE", "HPEEK", "RAISE", "REPORT"} {
		if strings.Contains(sql, w) {
			return true
		}
	}
	return false
}

func scribble(rows []any) {
	for i, r := range rows {
		switch t := r.(type) {
		case map[string]any:
			for k := range t {
				t[k] = "\x00edited"
			}
			t["\x00added"] = float64(i)
		case []any:
			scribble(t)
		}
	}
	if len(rows) > 1 {
		rows[0], rows[len(rows)-1] = rows[len(rows)-1], rows[0]
	}
}

func usageChecks(o *Out, doc map[string]any, sql string, opts []genql.QueryOption) {
	// every phase is a controlled run of its own (a run has a bounded number of threads)
	phase := func(f func()) {
		res := vrt.Run(Seq, nil, func() {
			defer func() {
				if r := recover(); r != nil {
					Usage(fmt.Sprintf("%s: panic during the usage differential: %v", sql, r))
				}
			}()
			f()
		})
		if res.GPanic != "" {
			Usage(fmt.Sprintf("%s: panic in a library goroutine during the usage differential: %s", sql, res.GPanic))
		}
	}
	q, rows := o.q, o.Rows
	first := Render(rows)
	firstRows, _ := Clone(any(rows)).([]any)
	ok := true
	phase(func() {
		before := Snapshot(doc)
		scribble(rows)
		if d := before.Diff(doc); d != "" {
			Usage(fmt.Sprintf("%s: editing the rows of the result changed the document: %s", sql, d))
			ok = false
			return
		}
		rows2, err2 := q.Exec()
		// the caller gets an untouched result: the first one was edited on purpose
		o.Rows = rows2
		if err2 != nil {
			Usage(fmt.Sprintf("%s: the same Query executed again (after the first result had been edited by the caller) failed: %v; the first Exec returned %s", sql, err2, first))
			ok = false
			return
		}
		if !sameResult(sql, rows2, firstRows) {
			Usage(fmt.Sprintf("%s: the same Query executed again (after the first result had been edited by the caller) returned %s; the first Exec returned %s", sql, Render(rows2), first))
			ok = false
		}
	})
	if !ok || (len(opts) != 0 && !UsageForcePrepare) {
		return
	}
	forced := len(opts) != 0
	stmt, err := genql.Parse(sql)
	if err != nil {
		return
	}
	for k := 0; k < 2 && ok; k++ {
		phase(func() {
			pdoc := CloneMap(doc)
			psnap := Snapshot(pdoc)
			pq, err := genql.Prepare(pdoc, stmt, &genql.Options{})
			if d := psnap.Diff(pdoc); d != "" {
				Usage(fmt.Sprintf("%s: Parse + Prepare(doc, stmt, &Options{}) changed the document: %s", sql, d))
				ok = false
				return
			}
			if err != nil {
				if !forced {
					Usage(fmt.Sprintf("%s: built through Parse + Prepare(doc, stmt, &Options{}) (build #%d from one parsed statement) fails: %v; New + Exec returns %s", sql, k+1, err, first))
				}
				ok = false
				return
			}
			prow, perr := pq.Exec()
			if forced {
				// the query was built with options this path cannot reproduce: only the document is checked
				if d := psnap.Diff(pdoc); d != "" {
					Usage(fmt.Sprintf("%s: Parse + Prepare(doc, stmt, &Options{}) + Exec changed the document: %s", sql, d))
				}
				ok = false
				return
			}
			if perr != nil || !sameResult(sql, prow, firstRows) {
				Usage(fmt.Sprintf("%s: built through Parse + Prepare(doc, stmt, &Options{}) (build #%d from one parsed statement) returns %s (%v); New + Exec returns %s", sql, k+1, Render(prow), perr, first))
				ok = false
				return
			}
			if d := psnap.Diff(pdoc); d != "" {
				Usage(fmt.Sprintf("%s: Parse + Prepare(doc, stmt, &Options{}) + Exec changed the document: %s", sql, d))
				ok = false
			}
		})
	}
	if !ok {
		return
	}
	// one Options value and one parsed statement, two different documents (the second one: every
	// top-level array reversed): the second query answers for its own document
	other := CloneMap(doc)
	for _, v := range other {
		if a, isArr := v.([]any); isArr {
			for i, j := 0, len(a)-1; i < j; i, j = i+1, j-1 {
				a[i], a[j] = a[j], a[i]
			}
		}
	}
	var frows []any
	phase(func() {
		fresh, ferr := genql.New(CloneMap(other), sql)
		if ferr != nil {
			ok = false
			return
		}
		frows, ferr = fresh.Exec()
		if ferr != nil {
			ok = false
		}
	})
	if !ok {
		return
	}
	shared := &genql.Options{}
	phase(func() {
		if pq, err := genql.Prepare(CloneMap(doc), stmt, shared); err == nil {
			pq.Exec()
		}
	})
	phase(func() {
		pq2, err := genql.Prepare(CloneMap(other), stmt, shared)
		if err != nil {
			Usage(fmt.Sprintf("%s: Prepare with an Options value already used for another document fails: %v", sql, err))
			return
		}
		prow2, perr2 := pq2.Exec()
		if perr2 != nil || !sameResult(sql, prow2, frows) {
			Usage(fmt.Sprintf("%s: Parse + Prepare with an Options value (and parsed statement) already used for another document returns %s (%v); a fresh query on that document returns %s", sql, Render(prow2), perr2, Render(frows)))
		}
	})
}

// ReExec makes Call execute every successfully executed Query object two more times; Out.First and
// Out.Again hold the rendered results (rendered at once: a repetition may share structure with
// the first result).
var ReExec bool

// Reader executes ExecReader with panic capture.
func Reader(doc any, selector string) (v any, err error, pan string) {
	defer func() {
		if r := recover(); r != nil {
			pan = fmt.Sprintf("%v", r)
			v, err = nil, nil
		}
	}()
	v, err = genql.ExecReader(doc, selector)
	return
}

// ---------------------------------------------------------------------------------------------
// values

// Clone deep-copies JSON-like data (maps, slices; scalars shared).
func Clone(v any) any {
	switch t := v.(type) {
	case map[string]any:
		m := make(map[string]any, len(t))
		for k, x := range t {
			m[k] = Clone(x)
		}
		return m
	case []any:
		s := make([]any, len(t))
		for i, x := range t {
			s[i] = Clone(x)
		}
		return s
	}
	return v
}

func CloneMap(m map[string]any) map[string]any { return Clone(m).(map[string]any) }

// Num converts any Go numeric value to float64.
func Num(v any) (float64, bool) {
	switch t := v.(type) {
	case float64:
		return t, true
	case float32:
		return float64(t), true
	case int:
		return float64(t), true
	case int64:
		return float64(t), true
	case int32:
		return float64(t), true
	case int16:
		return float64(t), true
	case int8:
		return float64(t), true
	case uint:
		return float64(t), true
	case uint64:
		return float64(t), true
	case uint32:
		return float64(t), true
	case uint16:
		return float64(t), true
	case uint8:
		return float64(t), true
	}
	return 0, false
}

func fmtNum(f float64) string {
	switch {
	case math.IsNaN(f):
		return "NaN"
	case math.IsInf(f, 1):
		return "+Inf"
	case math.IsInf(f, -1):
		return "-Inf"
	case f == 0:
		return "0"
	}
	return strconv.FormatFloat(f, 'g', -1, 64)
}

// Render is a canonical text of a value: map keys sorted, every Go numeric kind printed as the
// number it denotes, strings quoted, anything that is not plain data tagged with its Go type.
func Render(v any) string {
	var sb strings.Builder
	onPath = map[uintptr]bool{}
	render(&sb, v, 0)
	return sb.String()
}

// maps on the current path (cycle detection)
var onPath map[uintptr]bool

const maxDepth = 24

func render(sb *strings.Builder, v any, depth int) {
	if depth > maxDepth {
		sb.WriteString("<too-deep-or-cyclic>")
		return
	}
	switch t := v.(type) {
	case nil:
		sb.WriteString("null")
	case bool:
		sb.WriteString(strconv.FormatBool(t))
	case string:
		sb.WriteString(strconv.Quote(t))
	case map[string]any:
		if t != nil {
			ptr := reflect.ValueOf(t).Pointer()
			if onPath[ptr] {
				sb.WriteString("<cycle>")
				return
			}
			onPath[ptr] = true
			defer delete(onPath, ptr)
		}
		keys := make([]string, 0, len(t))
		for k := range t {
			keys = append(keys, k)
		}
		sort.Strings(keys)
		sb.WriteByte('{')
		for i, k := range keys {
			if i > 0 {
				sb.WriteByte(',')
			}
			sb.WriteString(strconv.Quote(k))
			sb.WriteByte(':')
			render(sb, t[k], depth+1)
		}
		sb.WriteByte('}')
	case []any:
		sb.WriteByte('[')
		for i, x := range t {
			if i > 0 {
				sb.WriteByte(',')
			}
			render(sb, x, depth+1)
		}
		sb.WriteByte(']')
	default:
		// 64-bit integers a double cannot hold are written out exactly
		switch t := v.(type) {
		case int64:
			if t >= 1<<53 || t <= -(1<<53) {
				sb.WriteString(strconv.FormatInt(t, 10))
				return
			}
		case uint64:
			if t >= 1<<53 {
				sb.WriteString(strconv.FormatUint(t, 10))
				return
			}
		}
		if f, ok := Num(v); ok {
			sb.WriteString(fmtNum(f))
			return
		}
		rv := reflect.ValueOf(v)
		switch rv.Kind() {
		case reflect.Slice, reflect.Array:
			fmt.Fprintf(sb, "<%T>[", v)
			for i := 0; i < rv.Len(); i++ {
				if i > 0 {
					sb.WriteByte(',')
				}
				render(sb, rv.Index(i).Interface(), depth+1)
			}
			sb.WriteByte(']')
		case reflect.Pointer:
			if rv.IsNil() {
				fmt.Fprintf(sb, "<%T nil>", v)
				return
			}
			fmt.Fprintf(sb, "<%T>&", v)
			render(sb, rv.Elem().Interface(), depth+1)
		case reflect.Func, reflect.Chan:
			fmt.Fprintf(sb, "<%T>", v)
		case reflect.Map:
			fmt.Fprintf(sb, "<%T>", v)
			m := map[string]any{}
			for _, k := range rv.MapKeys() {
				m[fmt.Sprint(k.Interface())] = rv.MapIndex(k).Interface()
			}
			render(sb, m, depth+1)
		case reflect.String:
			fmt.Fprintf(sb, "<%T>%q", v, rv.String())
		default:
			fmt.Fprintf(sb, "<%T>%v", v, v)
		}
	}
}

// RenderRows renders each row separately.
func RenderRows(rows []any) []string {
	out := make([]string, len(rows))
	for i, r := range rows {
		out[i] = Render(r)
	}
	return out
}

// SameSeq / SameBag compare rendered rows as sequences / multisets.
func SameSeq(a, b []string) bool {
	if len(a) != len(b) {
		return false
	}
	for i := range a {
		if a[i] != b[i] {
			return false
		}
	}
	return true
}

func SameBag(a, b []string) bool {
	if len(a) != len(b) {
		return false
	}
	x := append([]string(nil), a...)
	y := append([]string(nil), b...)
	sort.Strings(x)
	sort.Strings(y)
	return SameSeq(x, y)
}

// Plain walks a value and reports the first thing that is not JSON-representable plain data:
// a pointer, func, chan, a named (non-builtin) type, a "<-" key, a cycle.  "" means plain.
func Plain(v any) string {
	return plain(v, "$", map[uintptr]bool{}, 0)
}

func plain(v any, path string, seen map[uintptr]bool, depth int) string {
	if depth > 64 {
		return path + ": deeper than 64 levels (cycle?)"
	}
	switch t := v.(type) {
	case nil, bool, string, float64, float32, int, int8, int16, int32, int64, uint, uint8, uint16, uint32, uint64:
		return ""
	case map[string]any:
		p := reflect.ValueOf(t).Pointer()
		if seen[p] {
			return path + ": cycle"
		}
		seen[p] = true
		defer delete(seen, p)
		keys := make([]string, 0, len(t))
		for k := range t {
			keys = append(keys, k)
		}
		sort.Strings(keys)
		for _, k := range keys {
			if k == "<-" {
				return path + `: key "<-"`
			}
			if s := plain(t[k], path+"."+k, seen, depth+1); s != "" {
				return s
			}
		}
		return ""
	case []any:
		for i, x := range t {
			if s := plain(x, fmt.Sprintf("%s[%d]", path, i), seen, depth+1); s != "" {
				return s
			}
		}
		return ""
	}
	rv := reflect.ValueOf(v)
	switch rv.Kind() {
	case reflect.Slice, reflect.Array:
		// typed slices of plain element types are JSON-representable only if the type is unnamed
		if rv.Type().Name() != "" || rv.Type().PkgPath() != "" {
			return fmt.Sprintf("%s: value of type %T", path, v)
		}
		for i := 0; i < rv.Len(); i++ {
			if s := plain(rv.Index(i).Interface(), fmt.Sprintf("%s[%d]", path, i), seen, depth+1); s != "" {
				return s
			}
		}
		return ""
	}
	return fmt.Sprintf("%s: value of type %T", path, v)
}

// ---------------------------------------------------------------------------------------------
// exploration

// ExploreQuery runs New+Exec of one query under every choice trace within the deviation bound
// (explorer-owned: thread schedule and/or map iteration order, per cfg).  mk builds a fresh
// document for every execution (no state is shared between executions); check is the oracle for
// one execution (returning false stops the exploration).
func ExploreQuery(cfg vrt.Config, bound int, maxExecs int64, mk func() (map[string]any, string, []genql.QueryOption), check func(o *Out, prefix []int32) bool) *explore.Stats {
	var cur *Out
	e := &explore.Explorer{
		MaxExecs: maxExecs,
		Run: func(prefix []int32) *vrt.Result {
			doc, sql, opts := mk()
			genql.VerifResetSelectorCache()
			cur = RunCfg(cfg, prefix, doc, sql, opts...)
			return cur.Res
		},
		Check: func(prefix []int32, r *vrt.Result) bool { return check(cur, prefix) },
	}
	e.MaxSched, e.MaxMap = MaxSched, MaxMap
	e.Explore(bound)
	return &e.Stats
}

// MaxSched / MaxMap are the per-kind deviation caps used by ExploreQuery (0 = none).
var MaxSched, MaxMap int

// ---------------------------------------------------------------------------------------------
// snapshots (read-only checks)

type snapNode struct {
	kind   byte // 'm' map, 's' slice, 'v' scalar
	m      map[string]*snapNode
	elems  []*snapNode
	spare  []*snapNode // contents of the slice between len and cap
	scalar any
}

// Snapshot records the full content of a JSON-like value, including the spare capacity of slices.
func Snapshot(v any) *snapNode {
	switch t := v.(type) {
	case map[string]any:
		n := &snapNode{kind: 'm', m: make(map[string]*snapNode, len(t))}
		for k, x := range t {
			n.m[k] = Snapshot(x)
		}
		return n
	case []any:
		n := &snapNode{kind: 's'}
		for _, x := range t {
			n.elems = append(n.elems, Snapshot(x))
		}
		for _, x := range t[len(t):cap(t)] {
			n.spare = append(n.spare, Snapshot(x))
		}
		return n
	}
	return &snapNode{kind: 'v', scalar: v}
}

// Diff compares the value with the snapshot and returns a description of the first difference
// ("" if none).  It is cycle-safe on v.
func (n *snapNode) Diff(v any) string {
	return n.diff(v, "$", map[uintptr]bool{})
}

func (n *snapNode) diff(v any, path string, onPath map[uintptr]bool) string {
	switch t := v.(type) {
	case map[string]any:
		if n.kind != 'm' {
			return path + ": became an object"
		}
		ptr := reflect.ValueOf(t).Pointer()
		if onPath[ptr] {
			return path + ": reference cycle"
		}
		onPath[ptr] = true
		defer delete(onPath, ptr)
		keys := make([]string, 0, len(t))
		for k := range t {
			keys = append(keys, k)
		}
		sort.Strings(keys)
		for _, k := range keys {
			c, ok := n.m[k]
			if !ok {
				return fmt.Sprintf("%s: key %q was added (value of type %T)", path, k, t[k])
			}
			if d := c.diff(t[k], path+"."+k, onPath); d != "" {
				return d
			}
		}
		for k := range n.m {
			if _, ok := t[k]; !ok {
				return fmt.Sprintf("%s: key %q was removed", path, k)
			}
		}
		return ""
	case []any:
		if n.kind != 's' {
			return path + ": became an array"
		}
		if len(t) != len(n.elems) {
			return fmt.Sprintf("%s: length changed from %d to %d", path, len(n.elems), len(t))
		}
		for i, x := range t {
			if d := n.elems[i].diff(x, fmt.Sprintf("%s[%d]", path, i), onPath); d != "" {
				return d
			}
		}
		sp := t[len(t):cap(t)]
		if len(sp) != len(n.spare) {
			return fmt.Sprintf("%s: capacity changed", path)
		}
		for i, x := range sp {
			if d := n.spare[i].diff(x, fmt.Sprintf("%s[spare %d]", path, i), onPath); d != "" {
				return d
			}
		}
		return ""
	}
	if n.kind != 'v' {
		return fmt.Sprintf("%s: replaced by a value of type %T", path, v)
	}
	if !scalarEqual(n.scalar, v) {
		return fmt.Sprintf("%s: changed from %s to %s", path, Render(n.scalar), Render(v))
	}
	return ""
}

func scalarEqual(a, b any) bool {
	defer func() { recover() }()
	if a == nil || b == nil {
		return a == nil && b == nil
	}
	if reflect.TypeOf(a) != reflect.TypeOf(b) {
		return false
	}
	if !reflect.TypeOf(a).Comparable() {
		return false
	}
	return a == b
}
