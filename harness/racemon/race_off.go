//go:build !race

package racemon

const Enabled = false

func Errors() int { return 0 }
