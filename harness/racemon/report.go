// Package racemon turns the Go race detector into a per-execution monitor: the controlled
// scheduler's hand-off is invisible to it (see vrt), so a report means two accesses that the
// explored schedule serialised but the program itself did not order.
package racemon

import (
	"bufio"
	"fmt"
	"os"
	"path/filepath"
	"regexp"
	"sort"
	"strconv"
	"strings"
)

// Report is one parsed race report.
type Report struct {
	Sig  string // "<kind> <func> `<source line>` ~ <kind> <func> `<source line>`" (the two sides sorted)
	Text string // the report as printed by the runtime (truncated)
}

var (
	logPath string
	offset  int64
	accRe   = regexp.MustCompile(`^(Previous )?(atomic )?([Ww]rite|[Rr]ead) at 0x[0-9a-f]+ by `)
	posRe   = regexp.MustCompile(`^\s+(\S+\.go):(\d+)`)
)

func init() {
	// GORACE="log_path=<p> ..." -> the runtime writes to <p>.<pid>
	for _, f := range strings.Fields(os.Getenv("GORACE")) {
		if strings.HasPrefix(f, "log_path=") {
			logPath = strings.TrimPrefix(f, "log_path=") + "." + strconv.Itoa(os.Getpid())
		}
	}
}

// Drain returns the reports written since the previous call.
func Drain() []Report {
	if logPath == "" {
		return []Report{{Sig: "race|report text unavailable (GORACE log_path not set)"}}
	}
	f, err := os.Open(logPath)
	if err != nil {
		return []Report{{Sig: "race|report text unavailable (" + err.Error() + ")"}}
	}
	defer f.Close()
	f.Seek(offset, 0)
	var blocks []string
	var cur []string
	in := false
	sc := bufio.NewScanner(f)
	sc.Buffer(make([]byte, 1<<20), 1<<20)
	n := offset
	for sc.Scan() {
		line := sc.Text()
		n += int64(len(line)) + 1
		if strings.HasPrefix(line, "==================") {
			if in && len(cur) > 0 {
				blocks = append(blocks, strings.Join(cur, "\n"))
			}
			in = !in
			cur = nil
			continue
		}
		if in {
			cur = append(cur, line)
		}
	}
	offset = n
	var out []Report
	for _, b := range blocks {
		if !strings.Contains(b, "DATA RACE") {
			continue
		}
		out = append(out, parse(b))
	}
	return out
}

func srcLine(file string, line int) string {
	ov := os.Getenv("VERIF_OV")
	path := file
	if ov != "" && strings.HasPrefix(file, "/repo/") {
		p := filepath.Join(ov, "overlay", strings.TrimPrefix(file, "/repo/"))
		if _, err := os.Stat(p); err == nil {
			path = p
		}
	}
	b, err := os.ReadFile(path)
	if err != nil {
		return ""
	}
	lines := strings.Split(string(b), "\n")
	if line < 1 || line > len(lines) {
		return ""
	}
	return strings.TrimSpace(lines[line-1])
}

func parse(block string) Report {
	lines := strings.Split(block, "\n")
	var sides []string
	for i := 0; i < len(lines); i++ {
		m := accRe.FindStringSubmatch(lines[i])
		if m == nil {
			continue
		}
		kind := strings.ToLower(m[3])
		side := kind + " ?"
		for j := i + 1; j+1 < len(lines) && strings.TrimSpace(lines[j]) != ""; j += 2 {
			fn := strings.TrimSpace(lines[j])
			fn = strings.TrimSuffix(fn, "()")
			if strings.HasPrefix(fn, "runtime.") || strings.HasPrefix(fn, "sync.") || strings.HasPrefix(fn, "sync/") || strings.HasPrefix(fn, "internal/") || strings.HasPrefix(fn, "maps.") || strings.HasPrefix(fn, "iter.") || strings.Contains(fn, "/vrt.") {
				continue
			}
			text := ""
			if pm := posRe.FindStringSubmatch(lines[j+1]); pm != nil {
				ln, _ := strconv.Atoi(pm[2])
				text = srcLine(pm[1], ln)
			}
			// drop the module path and closure numbering noise
			if k := strings.LastIndex(fn, "/"); k >= 0 {
				fn = fn[k+1:]
			}
			side = fmt.Sprintf("%s %s `%s`", kind, fn, text)
			break
		}
		sides = append(sides, side)
	}
	sort.Strings(sides)
	text := block
	if len(text) > 3000 {
		text = text[:3000] + "..."
	}
	return Report{Sig: "race|" + strings.Join(sides, " ~ "), Text: text}
}
