//go:build race

package racemon

import "runtime"

const Enabled = true

// Errors is the number of data races the race detector has reported in this process so far.
func Errors() int { return runtime.RaceErrors() }
