module verif/harness

go 1.23.0

require (
	github.com/vedadiyan/genql v0.0.0
	github.com/vedadiyan/sqlparser/v2 v2.0.3
)

replace github.com/vedadiyan/genql => /repo
