// vcheck: entry point of the checker binary (parent, worker, replay).
package main

import (
	"encoding/json"
	"flag"
	"fmt"
	"os"
	"path/filepath"
	"runtime/pprof"
	"strconv"
	"time"

	"github.com/vedadiyan/genql"
	"github.com/vedadiyan/genql/vrt"
	"verif/harness/gq"
	"verif/harness/core"
	"verif/harness/explore"
	_ "verif/harness/props"
)

func main() {
	if len(os.Args) < 2 {
		usage()
	}
	vrt.OnAbort = func(kind, detail string) {
		core.AbortCase(core.CurProp+"|scheduler-abort|"+kind, kind+": "+detail, core.CurDesc())
	}
	explore.Heartbeat = core.Heartbeat
	// the selector cache of this tree has a shape the generated hooks cannot reset (see vrt.Tolerant)
	vrt.Tolerant = genql.VerifSelectorCacheLen() == -1
	if pf := os.Getenv("VERIF_CPUPROFILE"); pf != "" {
		f, _ := os.Create(pf)
		pprof.StartCPUProfile(f)
		defer pprof.StopCPUProfile()
	}
	switch os.Args[1] {
	case "worker":
		a := os.Args[2:]
		if len(a) != 8 {
			usage()
		}
		shard, _ := strconv.Atoi(a[2])
		nsh, _ := strconv.Atoi(a[3])
		start, _ := strconv.Atoi(a[4])
		dl, _ := strconv.ParseInt(a[6], 10, 64)
		core.WorkerMain(a[0], a[1], shard, nsh, start, a[5], time.Unix(dl, 0), a[7])
	case "run":
		fs := flag.NewFlagSet("run", flag.ExitOnError)
		tier := fs.String("tier", "quick", "quick|thorough")
		workers := fs.Int("workers", 0, "worker processes (default: all cores)")
		deadline := fs.Duration("deadline", 0, "internal deadline")
		root := fs.String("root", "/verif", "verif root")
		wbin := fs.String("worker-bin", "", "binary for workers")
		evDir := fs.String("evidence-dir", "", "evidence directory (default <root>/evidence)")
		repDir := fs.String("replay-dir", "", "replay directory (default <root>/replays)")
		fs.Parse(os.Args[3:])
		id := os.Args[2]
		if *deadline == 0 {
			*deadline = 4 * time.Minute
			if *tier == "thorough" {
				*deadline = 30 * time.Minute
			}
		}
		if *wbin == "" {
			*wbin, _ = os.Executable()
		}
		seed, _ := strconv.ParseInt(os.Getenv("VERIF_SEED"), 10, 64)
		os.Exit(core.ParentMain(core.Options{ID: id, Tier: *tier, Workers: *workers, Deadline: *deadline, Root: *root, WorkerBin: *wbin, Seed: seed, EvidenceDir: *evDir, ReplayDir: *repDir}))
	case "one":
		// vcheck one <ID> <tier> <idx>: run a single case in this process and print its result
		id, tier := os.Args[2], os.Args[3]
		idx, _ := strconv.Atoi(os.Args[4])
		rc := core.RunOne(id, tier, idx, "")
		pprof.StopCPUProfile()
		os.Exit(rc)
	case "replay":
		b, err := os.ReadFile(os.Args[2])
		if err != nil {
			fmt.Fprintln(os.Stderr, err)
			os.Exit(2)
		}
		var rep struct {
			Property string `json:"property"`
			Tier     string `json:"tier"`
			Index    int    `json:"index"`
			Sig      string `json:"sig"`
		}
		if err := json.Unmarshal(b, &rep); err != nil {
			fmt.Fprintln(os.Stderr, err)
			os.Exit(2)
		}
		os.Exit(core.RunOne(rep.Property, rep.Tier, rep.Index, rep.Sig))
	case "sql":
		// vcheck sql '<json doc>' '<sql>' [wrapped|pg|idiomatic ...]: run one query and print the outcome (probe tool)
		var doc map[string]any
		if err := json.Unmarshal([]byte(os.Args[2]), &doc); err != nil {
			fmt.Fprintln(os.Stderr, err)
			os.Exit(2)
		}
		var opts []genql.QueryOption
		vars := map[string]any{}
		for _, a := range os.Args[4:] {
			switch a {
			case "vars":
				opts = append(opts, genql.WithVars(vars))
			case "wrapped":
				opts = append(opts, genql.Wrapped())
			case "pg":
				opts = append(opts, genql.PostgresEscapingDialect())
			case "idiomatic":
				opts = append(opts, genql.IdomaticArrays())
			}
		}
		o := gq.Run(doc, os.Args[3], opts...)
		fmt.Printf("status=%s err=%v panic=%q gpanic=%q\nrows=%s\ndoc-after=%s\nvars-after=%s\n", o.Status(), o.Err, o.Panic, o.GPanic, gq.Render(o.Rows), gq.Render(doc), gq.Render(vars))
	case "sel":
		var doc any
		if err := json.Unmarshal([]byte(os.Args[2]), &doc); err != nil {
			fmt.Fprintln(os.Stderr, err)
			os.Exit(2)
		}
		v, err, pan := gq.Reader(doc, os.Args[3])
		fmt.Printf("value=%s err=%v panic=%q\n", gq.Render(v), err, pan)
	case "list":
		for _, id := range core.IDs() {
			fmt.Println(id)
		}
	case "needrace":
		p := core.Lookup(os.Args[2])
		if p != nil && p.Meta().NeedRace {
			fmt.Println("yes")
		} else {
			fmt.Println("no")
		}
	default:
		usage()
	}
}

func usage() {
	fmt.Fprintf(os.Stderr, "usage: %s run <ID> [--tier quick|thorough] | replay <file> | one <ID> <tier> <idx> | list\n", filepath.Base(os.Args[0]))
	os.Exit(2)
}
