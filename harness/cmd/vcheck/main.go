// vcheck: entry point of the checker binary (parent, worker, replay).
package main

import (
	"encoding/json"
	"flag"
	"fmt"
	"os"
	"path/filepath"
	"strconv"
	"time"

	"github.com/vedadiyan/genql/vrt"
	"verif/harness/core"
	_ "verif/harness/props"
)

func main() {
	if len(os.Args) < 2 {
		usage()
	}
	vrt.OnAbort = func(kind, detail string) {
		core.AbortCase(core.CurProp+"|scheduler-abort|"+kind, kind+": "+detail, core.CurDesc())
	}
	switch os.Args[1] {
	case "worker":
		a := os.Args[2:]
		if len(a) != 7 {
			usage()
		}
		shard, _ := strconv.Atoi(a[2])
		nsh, _ := strconv.Atoi(a[3])
		start, _ := strconv.Atoi(a[4])
		dl, _ := strconv.ParseInt(a[6], 10, 64)
		core.WorkerMain(a[0], a[1], shard, nsh, start, a[5], time.Unix(dl, 0))
	case "run":
		fs := flag.NewFlagSet("run", flag.ExitOnError)
		tier := fs.String("tier", "quick", "quick|thorough")
		workers := fs.Int("workers", 0, "worker processes (default: all cores)")
		deadline := fs.Duration("deadline", 0, "internal deadline")
		root := fs.String("root", "/verif", "verif root")
		wbin := fs.String("worker-bin", "", "binary for workers")
		fs.Parse(os.Args[3:])
		id := os.Args[2]
		if *deadline == 0 {
			*deadline = 4 * time.Minute
			if *tier == "thorough" {
				*deadline = 30 * time.Minute
			}
		}
		if *wbin == "" {
			*wbin, _ = os.Executable()
		}
		seed, _ := strconv.ParseInt(os.Getenv("VERIF_SEED"), 10, 64)
		os.Exit(core.ParentMain(core.Options{ID: id, Tier: *tier, Workers: *workers, Deadline: *deadline, Root: *root, WorkerBin: *wbin, Seed: seed}))
	case "one":
		// vcheck one <ID> <tier> <idx>: run a single case in this process and print its result
		id, tier := os.Args[2], os.Args[3]
		idx, _ := strconv.Atoi(os.Args[4])
		os.Exit(core.RunOne(id, tier, idx, ""))
	case "replay":
		b, err := os.ReadFile(os.Args[2])
		if err != nil {
			fmt.Fprintln(os.Stderr, err)
			os.Exit(2)
		}
		var rep struct {
			Property string `json:"property"`
			Tier     string `json:"tier"`
			Index    int    `json:"index"`
			Sig      string `json:"sig"`
		}
		if err := json.Unmarshal(b, &rep); err != nil {
			fmt.Fprintln(os.Stderr, err)
			os.Exit(2)
		}
		os.Exit(core.RunOne(rep.Property, rep.Tier, rep.Index, rep.Sig))
	case "list":
		for _, id := range core.IDs() {
			fmt.Println(id)
		}
	case "needrace":
		p := core.Lookup(os.Args[2])
		if p != nil && p.Meta().NeedRace {
			fmt.Println("yes")
		} else {
			fmt.Println("no")
		}
	default:
		usage()
	}
}

func usage() {
	fmt.Fprintf(os.Stderr, "usage: %s run <ID> [--tier quick|thorough] | replay <file> | one <ID> <tier> <idx> | list\n", filepath.Base(os.Args[0]))
	os.Exit(2)
}
