// Package core is the property-independent part of the checker: the case/worker protocol,
// crash isolation, evidence, known findings, replay files.
package core

import (
	"bufio"
	"crypto/sha256"
	"encoding/hex"
	"encoding/json"
	"fmt"
	"hash/fnv"
	"os"
	"os/exec"
	"path/filepath"
	"regexp"
	"runtime"
	"runtime/debug"
	"sort"
	"strconv"
	"strings"
	"sync"
	"sync/atomic"
	"time"
)

// Violation is one failed oracle on one case.
type Violation struct {
	Sig  string `json:"sig"`  // narrow classification: what kind of input fails in which way
	Msg  string `json:"msg"`  // expected vs. actual
	Case any    `json:"case"` // the failing input / trace, written out
}

// CaseResult is what running one case yields.
type CaseResult struct {
	Execs       int64 // implementation executions performed
	Transitions int64 // scheduler transitions (0 for checks that do not count them)
	States      int64 // distinct scheduler states seen within this case
	Nontrivial  bool
	Outcomes    []string // outcome fingerprints (hashed by the worker)
	Unspecified int64    // sub-cases on which the oracle abstained
	Viol        []Violation
	Counters    map[string]int64
	BoundDone   int // largest deviation bound completed for this case (exploring checks)
	Capped      bool
}

func (c *CaseResult) Count(name string, n int64) {
	if c.Counters == nil {
		c.Counters = map[string]int64{}
	}
	c.Counters[name] += n
}

// Fail records a violation; within one case only the first violation per signature is kept.
func (c *CaseResult) Fail(sig, msg string, cs any) {
	for i := range c.Viol {
		if c.Viol[i].Sig == sig {
			c.Count("violations_same_sig_in_case", 1)
			return
		}
	}
	c.Viol = append(c.Viol, Violation{Sig: sig, Msg: msg, Case: cs})
}

type Meta struct {
	Rule        string   // how cases are enumerated and what makes one non-trivial
	Assumptions []string
	Bounds      map[string]any
	NeedRace    bool // workers must be the -race build
	CaseTimeout time.Duration // watchdog per case (default 90 s; a hang is believed when it repeats under twice the limit)
	Level       string
	Exhaustive  bool // the space enumerated at this tier is a complete finite space
}

type Prop interface {
	ID() string
	Init(tier string)
	NumCases() int
	RunCase(i int) *CaseResult
	Describe(i int) any
	Meta() Meta
}

var registry = map[string]func() Prop{}

func Register(id string, f func() Prop) { registry[id] = f }

func Lookup(id string) Prop {
	f, ok := registry[id]
	if !ok {
		return nil
	}
	return f()
}

func IDs() []string {
	var ids []string
	for k := range registry {
		ids = append(ids, k)
	}
	sort.Strings(ids)
	return ids
}

// ---------------------------------------------------------------------------------------------
// worker

type wireMsg struct {
	T    string     `json:"t"` // "viol" | "done" | "abort"
	Idx  int        `json:"idx"`
	Viol *Violation `json:"viol,omitempty"`
	Done *wireDone  `json:"done,omitempty"`
	Kind string     `json:"kind,omitempty"`
	Msg  string     `json:"msg,omitempty"`
}

type wireDone struct {
	Cases       int64            `json:"cases"`
	Execs       int64            `json:"execs"`
	Transitions int64            `json:"transitions"`
	States      int64            `json:"states"`
	Nontrivial  int64            `json:"nontrivial"`
	Unspecified int64            `json:"unspecified"`
	Outcomes    []uint64         `json:"outcomes"`
	Counters    map[string]int64 `json:"counters"`
	Last        int              `json:"last"` // last index completed
	TimedOut    bool             `json:"timed_out"`
	Capped      int64            `json:"capped"`
	MinBound    int              `json:"min_bound"`
	Slow        []SlowCase       `json:"slow,omitempty"` // cases that took more than a second
}

type SlowCase struct {
	Idx   int     `json:"index"`
	Secs  float64 `json:"seconds"`
	Execs int64   `json:"executions"`
}

// Heartbeat tells the watchdog that the running case is making progress (exploring cases call it
// once per execution); the journal then names the case and a progress counter.
func Heartbeat() {
	if hbFile == nil {
		return
	}
	hbCount++
	if hbCount&63 != 0 {
		return
	}
	var b [32]byte
	copy(b[:], "                                ")
	copy(b[:], strconv.Itoa(CurCase)+":"+strconv.FormatInt(hbCount, 10)+":"+strconv.FormatInt(curSub, 10))
	hbFile.WriteAt(b[:], 0)
}

var (
	hbFile  *os.File
	hbCount int64
	curSub  int64 = -1
)

// SetSub records which sub-case of the running case is about to run (written to the journal, so
// that a worker death or hang can be attributed to it).
func SetSub(n int) {
	curSub = int64(n)
	if hbFile == nil {
		return
	}
	var b [32]byte
	copy(b[:], "                                ")
	copy(b[:], strconv.Itoa(CurCase)+":"+strconv.FormatInt(hbCount, 10)+":"+strconv.Itoa(n))
	hbFile.WriteAt(b[:], 0)
}

// SubDescriber is implemented by properties whose cases consist of many sub-cases.
type SubDescriber interface {
	DescribeSub(i, sub int) any
}

var (
	outMu   sync.Mutex
	outW    *bufio.Writer
	CurCase int = -1 // index of the case being run (for abort handlers)
)

func emit(m wireMsg) {
	outMu.Lock()
	defer outMu.Unlock()
	b, _ := json.Marshal(m)
	outW.Write(b)
	outW.WriteByte('\n')
	outW.Flush()
}

// AbortCase is called by the scheduler's abort hook: the current case is reported as failed with
// the given signature and the worker exits with status 3 (the parent restarts the shard after it).
func AbortCase(sig, msg string, cs any) {
	emit(wireMsg{T: "viol", Idx: CurCase, Viol: &Violation{Sig: sig, Msg: msg, Case: cs}})
	emit(wireMsg{T: "abort", Idx: CurCase, Kind: sig, Msg: msg})
	os.Exit(3)
}

const maxOutcomesPerWorker = 1 << 16

// WorkerMain runs cases start, start+n, start+2n, ... (interleaved sharding keeps the
// simplest-first order within every shard).
// ResumeAfter returns the sub-case after which case idx is to be resumed in this worker (-1: run all
// of it).  A worker that died inside sub-case k of a case is restarted on the same case and skips
// the sub-cases up to and including k.
func ResumeAfter(idx int) int {
	if idx == resumeIdx {
		return resumeSub
	}
	return -1
}

var resumeIdx, resumeSub = -1, -1

func WorkerMain(id, tier string, shard, nshards, start int, journal string, deadline time.Time, resume string) {
	if parts := strings.Split(resume, ":"); len(parts) == 2 {
		resumeIdx, _ = strconv.Atoi(parts[0])
		resumeSub, _ = strconv.Atoi(parts[1])
	}
	runtime.GOMAXPROCS(1)
	debug.SetMaxStack(256 << 20)
	outW = bufio.NewWriterSize(os.Stdout, 1<<16)
	p := Lookup(id)
	if p == nil {
		fmt.Fprintf(os.Stderr, "unknown property %s\n", id)
		os.Exit(2)
	}
	p.Init(tier)
	CurProp, curP = id, p
	n := p.NumCases()
	jf, err := os.OpenFile(journal, os.O_CREATE|os.O_WRONLY, 0o644)
	if err != nil {
		fmt.Fprintln(os.Stderr, err)
		os.Exit(2)
	}
	hbFile = jf
	d := &wireDone{Counters: map[string]int64{}, Last: -1, MinBound: 1 << 30}
	outcomes := map[uint64]struct{}{}
	sent := map[uint64]struct{}{}
	lastFlush := time.Now()
	flush := func(final bool) {
		for h := range outcomes {
			if _, ok := sent[h]; !ok {
				sent[h] = struct{}{}
				d.Outcomes = append(d.Outcomes, h)
			}
		}
		t := "prog"
		if final {
			t = "done"
		}
		emit(wireMsg{T: t, Done: d})
		nd := &wireDone{Counters: map[string]int64{}, Last: d.Last, MinBound: 1 << 30, TimedOut: d.TimedOut}
		d = nd
		lastFlush = time.Now()
	}
	var jb [32]byte
	first := start
	if first%nshards != shard {
		first += (shard - first%nshards + nshards) % nshards
	}
	for i := first; i < n; i += nshards {
		if time.Now().After(deadline) {
			d.TimedOut = true
			break
		}
		CurCase = i
		s := strconv.Itoa(i)
		copy(jb[:], "                                ")
		copy(jb[:], s)
		jf.WriteAt(jb[:], 0)
		curSub = -1
		tc := time.Now()
		r := p.RunCase(i)
		if dt := time.Since(tc).Seconds(); dt > 1 {
			d.Slow = append(d.Slow, SlowCase{Idx: i, Secs: dt, Execs: r.Execs})
		}
		d.Cases++
		d.Execs += r.Execs
		d.Transitions += r.Transitions
		d.States += r.States
		d.Unspecified += r.Unspecified
		if r.Nontrivial {
			d.Nontrivial++
		}
		if r.Capped {
			d.Capped++
		}
		if r.BoundDone < d.MinBound {
			d.MinBound = r.BoundDone
		}
		for k, v := range r.Counters {
			d.Counters[k] += v
		}
		for _, o := range r.Outcomes {
			if len(outcomes) < maxOutcomesPerWorker {
				h := fnv.New64a()
				h.Write([]byte(o))
				outcomes[h.Sum64()] = struct{}{}
			}
		}
		for k := range r.Viol {
			emit(wireMsg{T: "viol", Idx: i, Viol: &r.Viol[k]})
		}
		d.Last = i
		if d.Cases >= 64 || time.Since(lastFlush) > 500*time.Millisecond {
			flush(false)
		}
	}
	flush(true)
}

// ---------------------------------------------------------------------------------------------
// known findings

type Finding struct {
	Property string `json:"property"`
	Kind     string `json:"kind"` // "known" | "fixed"
	Sig      string `json:"sig"`  // exact violation signature, or a prefix ending in '*'
	What     string `json:"what"`
	Witness  string `json:"witness,omitempty"`
	Commit   string `json:"commit,omitempty"`
}

func LoadFindings(path string) ([]Finding, error) {
	f, err := os.Open(path)
	if err != nil {
		if os.IsNotExist(err) {
			return nil, nil
		}
		return nil, err
	}
	defer f.Close()
	var out []Finding
	sc := bufio.NewScanner(f)
	sc.Buffer(make([]byte, 1<<20), 1<<20)
	for sc.Scan() {
		line := strings.TrimSpace(sc.Text())
		if line == "" || strings.HasPrefix(line, "#") {
			continue
		}
		if strings.HasPrefix(line, "fixed:") {
			continue // plain-text record of a repaired defect; suppresses nothing
		}
		var fd Finding
		if err := json.Unmarshal([]byte(line), &fd); err != nil {
			return nil, fmt.Errorf("known_findings: %v in %q", err, line)
		}
		out = append(out, fd)
	}
	return out, nil
}

func (f *Finding) Matches(prop, sig string) bool {
	if f.Kind != "known" || f.Property != prop {
		return false
	}
	if strings.HasSuffix(f.Sig, "*") {
		return strings.HasPrefix(sig, strings.TrimSuffix(f.Sig, "*"))
	}
	return f.Sig == sig
}

// ---------------------------------------------------------------------------------------------
// parent

type Options struct {
	ID        string
	Tier      string
	Workers   int
	Deadline  time.Duration
	Root      string // /verif
	WorkerBin string
	Seed      int64
	Only      int // run only this case (-1: all)
	// EvidenceDir / ReplayDir: where evidence and replay files go (default <Root>/evidence, <Root>/replays).
	// Runs against a scratch tree (self-tests with VERIF_REPO set) must not overwrite the evidence of /repo.
	EvidenceDir string
	ReplayDir   string
}

type violRec struct {
	Idx  int
	V    Violation
	File string
}

var sigClean = regexp.MustCompile(`[^A-Za-z0-9_.=+-]+`)

// ParentMain runs the property at the given tier over worker sub-processes, writes the evidence
// file and returns the process exit status.
func ParentMain(o Options) int {
	t0 := time.Now()
	p := Lookup(o.ID)
	if p == nil {
		fmt.Fprintf(os.Stderr, "unknown property %s (have %v)\n", o.ID, IDs())
		return 2
	}
	p.Init(o.Tier)
	n := p.NumCases()
	meta := p.Meta()
	findings, err := LoadFindings(filepath.Join(o.Root, "known_findings.jsonl"))
	if err != nil {
		fmt.Fprintln(os.Stderr, err)
		return 2
	}
	if o.Workers <= 0 {
		o.Workers = runtime.NumCPU()
	}
	if o.Workers > n {
		o.Workers = n
	}
	if o.Workers < 1 {
		o.Workers = 1
	}
	deadline := t0.Add(o.Deadline)
	tmp, err := os.MkdirTemp(filepath.Join(o.Root, ".build"), "run-"+o.ID+"-")
	if err != nil {
		fmt.Fprintln(os.Stderr, err)
		return 2
	}
	defer os.RemoveAll(tmp)

	describe := func(journalText string, idx int) any {
		parts := strings.Split(strings.TrimSpace(journalText), ":")
		if sd, ok := p.(SubDescriber); ok && len(parts) == 3 {
			if sub, err := strconv.Atoi(parts[2]); err == nil && sub >= 0 {
				return sd.DescribeSub(idx, sub)
			}
		}
		return p.Describe(idx)
	}
	var mu sync.Mutex
	total := &wireDone{Counters: map[string]int64{}, MinBound: 1 << 30}
	outcomes := map[uint64]struct{}{}
	var viols []violRec
	infra := []string{}
	var wg sync.WaitGroup
	for s := 0; s < o.Workers; s++ {
		wg.Add(1)
		go func(shard int) {
			defer wg.Done()
			start := 0
			restarts := 0
			resume := "-"
			// a hang is believed only when the same (case, sub-case) makes no progress a second time,
			// in a fresh worker and with a doubled limit: on an overloaded machine a worker can be
			// starved for longer than any fixed limit
			suspect := map[string]bool{}
			limitFactor := time.Duration(1)
			for {
				journal := filepath.Join(tmp, fmt.Sprintf("j%d", shard))
				os.Remove(journal)
				cmd := exec.Command(o.WorkerBin, "worker", o.ID, o.Tier, strconv.Itoa(shard), strconv.Itoa(o.Workers),
					strconv.Itoa(start), journal, strconv.FormatInt(deadline.Unix(), 10), resume)
				resume = "-"
				cmd.Env = append(os.Environ(), "GOMAXPROCS=1", "GOTRACEBACK=single",
					"GORACE=log_path="+filepath.Join(tmp, fmt.Sprintf("race%d", shard))+" halt_on_error=0 history_size=3")
				stdout, _ := cmd.StdoutPipe()
				errFile := filepath.Join(tmp, fmt.Sprintf("stderr%d", shard))
				ef, _ := os.Create(errFile)
				cmd.Stderr = ef
				if err := cmd.Start(); err != nil {
					mu.Lock()
					infra = append(infra, "cannot start worker: "+err.Error())
					mu.Unlock()
					return
				}
				sc := bufio.NewScanner(stdout)
				sc.Buffer(make([]byte, 1<<24), 1<<24)
				gotDone := false
				aborted := -1
				// watchdog: the journal names the case being run; the same case for too long is a hang
				hung := int32(-1)
				hungText := ""
				stopWatch := make(chan struct{})
				go func() {
					limit := meta.CaseTimeout
					if limit == 0 {
						limit = 90 * time.Second
					}
					limit *= limitFactor
					lastIdx, since := "", time.Now()
					tk := time.NewTicker(2 * time.Second)
					defer tk.Stop()
					for {
						select {
						case <-stopWatch:
							return
						case <-tk.C:
							b, err := os.ReadFile(journal)
							if err != nil {
								continue
							}
							cur := strings.TrimSpace(string(b))
							if cur != lastIdx {
								lastIdx, since = cur, time.Now()
								continue
							}
							if time.Since(since) > limit {
								// the journal line is "<case>:<heartbeat>:<sub-case>"
								if v, err := strconv.Atoi(strings.SplitN(cur, ":", 2)[0]); err == nil {
									hungText = cur
									atomic.StoreInt32(&hung, int32(v))
								}
								cmd.Process.Kill()
								return
							}
						}
					}
				}()
				for sc.Scan() {
					var m wireMsg
					if json.Unmarshal(sc.Bytes(), &m) != nil {
						continue
					}
					mu.Lock()
					switch m.T {
					case "viol":
						viols = append(viols, violRec{Idx: m.Idx, V: *m.Viol})
					case "abort":
						aborted = m.Idx
					case "done", "prog":
						if m.T == "done" {
							gotDone = true
						}
						d := m.Done
						total.Cases += d.Cases
						total.Execs += d.Execs
						total.Transitions += d.Transitions
						total.States += d.States
						total.Nontrivial += d.Nontrivial
						total.Unspecified += d.Unspecified
						total.Capped += d.Capped
						if d.MinBound < total.MinBound {
							total.MinBound = d.MinBound
						}
						if d.TimedOut {
							total.TimedOut = true
						}
						for k, v := range d.Counters {
							total.Counters[k] += v
						}
						for _, h := range d.Outcomes {
							outcomes[h] = struct{}{}
						}
						total.Slow = append(total.Slow, d.Slow...)
					}
					mu.Unlock()
				}
				werr := cmd.Wait()
				close(stopWatch)
				ef.Close()
				if gotDone {
					return
				}
				if h := atomic.LoadInt32(&hung); h >= 0 {
					hp := strings.Split(strings.TrimSpace(hungText), ":")
					key := fmt.Sprintf("%d|%s", h, hp[len(hp)-1])
					if !suspect[key] {
						suspect[key] = true
						limitFactor = 2
						start, resume = int(h), "-"
						if len(hp) == 3 {
							if sub, err := strconv.Atoi(hp[2]); err == nil && sub > 0 {
								resume = fmt.Sprintf("%d:%d", h, sub-1)
							}
						}
						restarts++
						continue
					}
					limitFactor = 1
					mu.Lock()
					viols = append(viols, violRec{Idx: int(h), V: Violation{
						Sig:  o.ID + "|hang",
						Msg:  "no progress within the watchdog limit (the journal names the running sub-case); worker killed",
						Case: describe(hungText, int(h)),
					}})
					mu.Unlock()
					start, resume = resumePoint(hungText, int(h))
					if resume == "-" {
						mu.Lock()
						total.Cases++
						mu.Unlock()
					}
					restarts++
					continue
				}
				// the worker died inside a case
				last := -1
				lastText := ""
				if b, err := os.ReadFile(journal); err == nil {
					lastText = string(b)
					last, _ = strconv.Atoi(strings.SplitN(strings.TrimSpace(string(b)), ":", 2)[0])
				}
				if aborted < 0 {
					eb, _ := os.ReadFile(errFile)
					msg := firstLines(string(eb), 12)
					kind := classifyCrash(string(eb))
					if last < 0 {
						mu.Lock()
						infra = append(infra, fmt.Sprintf("worker %d died before its first case: %v: %s", shard, werr, msg))
						mu.Unlock()
						return
					}
					mu.Lock()
					viols = append(viols, violRec{Idx: last, V: Violation{
						Sig:  o.ID + "|process-death|" + kind,
						Msg:  fmt.Sprintf("worker process died while running this case (%v): %s", werr, msg),
						Case: describe(lastText, last),
					}})
					mu.Unlock()
				} else {
					last = aborted
				}
				nextStart, nextResume := resumePoint(lastText, last)
				if aborted >= 0 && aborted != last {
					nextStart, nextResume = aborted+1, "-"
				}
				if nextResume == "-" {
					mu.Lock()
					total.Cases++ // the case that killed the worker (earlier cases were reported by progress messages)
					mu.Unlock()
				}
				restarts++
				if restarts > 2000 {
					mu.Lock()
					infra = append(infra, fmt.Sprintf("worker %d restarted more than 2000 times", shard))
					mu.Unlock()
					return
				}
				start, resume = nextStart, nextResume
			}
		}(s)
	}
	wg.Wait()
	wall := time.Since(t0).Seconds()

	// classify violations
	sort.Slice(viols, func(i, j int) bool {
		if viols[i].Idx != viols[j].Idx {
			return viols[i].Idx < viols[j].Idx
		}
		return viols[i].V.Sig < viols[j].V.Sig
	})
	knownCount := map[int]int{}
	type group struct {
		sig   string
		first violRec
		n     int
	}
	unknown := map[string]*group{}
	var unknownOrder []string
	for _, v := range viols {
		matched := false
		for k := range findings {
			if findings[k].Matches(o.ID, v.V.Sig) {
				knownCount[k]++
				matched = true
				break
			}
		}
		if matched {
			continue
		}
		gr, ok := unknown[v.V.Sig]
		if !ok {
			gr = &group{sig: v.V.Sig, first: v}
			unknown[v.V.Sig] = gr
			unknownOrder = append(unknownOrder, v.V.Sig)
		}
		gr.n++
	}
	for k, f := range findings {
		if f.Property == o.ID && f.Kind == "known" {
			fmt.Printf("KNOWN-FINDING: property=%s %s [sig=%s; re-observed on %d cases in this run]\n", o.ID, f.What, f.Sig, knownCount[k])
		}
	}
	exit := 0
	repDir := filepath.Join(o.Root, "replays", o.ID)
	if o.ReplayDir != "" {
		repDir = filepath.Join(o.ReplayDir, o.ID)
	}
	nUnknown := 0
	for k, sig := range unknownOrder {
		gr := unknown[sig]
		nUnknown += gr.n
		exit = 1
		if k >= 40 {
			if k == 40 {
				fmt.Printf("... and %d more violation signatures (not written out)\n", len(unknownOrder)-40)
			}
			continue
		}
		os.MkdirAll(repDir, 0o755)
		h := sha256.Sum256([]byte(sig + "|" + strconv.Itoa(gr.first.Idx) + "|" + o.Tier))
		name := sigClean.ReplaceAllString(sig, "_")
		if len(name) > 80 {
			name = name[:80]
		}
		file := filepath.Join(repDir, name+"-"+hex.EncodeToString(h[:4])+".json")
		rep := map[string]any{
			"property": o.ID, "tier": o.Tier, "index": gr.first.Idx, "sig": sig, "msg": gr.first.V.Msg,
			"case": gr.first.V.Case, "cases_with_this_signature": gr.n,
			"replay_cmd": fmt.Sprintf("./check --replay %s", file),
		}
		b, _ := json.MarshalIndent(rep, "", " ")
		os.WriteFile(file, b, 0o644)
		fmt.Printf("VIOLATION property=%s replay=%s\n", o.ID, file)
		fmt.Printf("  sig=%s cases=%d first: %s\n", sig, gr.n, oneLine(gr.first.V.Msg, 400))
		exit = 1
	}
	for _, s := range infra {
		fmt.Fprintf(os.Stderr, "INFRASTRUCTURE: %s\n", s)
	}
	if len(infra) > 0 && exit == 0 {
		exit = 2
	}

	// evidence
	exhaustive := meta.Exhaustive && !total.TimedOut && total.Capped == 0 && int(total.Cases) >= n && len(infra) == 0
	var samples []any
	for _, i := range []int{0, n / 3, (2 * n) / 3, n - 1} {
		if i >= 0 && i < n {
			samples = append(samples, map[string]any{"index": i, "case": p.Describe(i)})
		}
	}
	// states: enumerated cases plus distinct scheduler / choice states seen inside exploring cases;
	// transitions: implementation executions plus scheduling / choice points passed
	states := total.Cases + total.States
	transitions := total.Execs + total.Transitions
	knownObs := []any{}
	for k, f := range findings {
		if f.Property == o.ID && f.Kind == "known" {
			knownObs = append(knownObs, map[string]any{"sig": f.Sig, "what": f.What, "cases": knownCount[k]})
		}
	}
	cov := map[string]any{
		"states":                        states,
		"transitions":                   transitions,
		"traces_validated_against_impl": total.Execs,
		"evaluations":                   total.Execs,
		"distinct_nontrivial":           total.Nontrivial,
		"rule":                          meta.Rule,
		"samples":                       samples,
		"exhaustive":                    exhaustive,
		"cases_in_space":                n,
		"cases_run":                     total.Cases,
		"distinct_outcomes":             len(outcomes),
		"unspecified":                   total.Unspecified,
		"bounds":                        meta.Bounds,
		"counters":                      total.Counters,
		"timed_out":                     total.TimedOut,
		"cases_capped":                  total.Capped,
		"known_findings_observed":       knownObs,
		"violating_cases_unlisted":      nUnknown,
		"explanation":                   "every explored trace is an execution of the real implementation (instrumented build of the current working tree); states = distinct cases (input enumeration) or distinct scheduler states (schedule exploration)",
	}
	sort.Slice(total.Slow, func(i, j int) bool { return total.Slow[i].Secs > total.Slow[j].Secs })
	if len(total.Slow) > 8 {
		total.Slow = total.Slow[:8]
	}
	cov["slowest_cases"] = total.Slow
	if total.MinBound < 1<<30 && total.MinBound > 0 {
		cov["deviation_bound_completed"] = total.MinBound
	}
	ev := map[string]any{
		"property_id": o.ID,
		"tier":        o.Tier,
		"seed":        o.Seed,
		"level":       "model_checking",
		"coverage":    cov,
		"assumptions": meta.Assumptions,
		"wall_s":      wall,
		"violations":  len(unknownOrder),
	}
	b, _ := json.MarshalIndent(ev, "", " ")
	evDir := filepath.Join(o.Root, "evidence")
	if o.EvidenceDir != "" {
		evDir = o.EvidenceDir
	}
	os.MkdirAll(evDir, 0o755)
	if err := os.WriteFile(filepath.Join(evDir, o.ID+".json"), b, 0o644); err != nil {
		fmt.Fprintln(os.Stderr, err)
		return 2
	}
	fmt.Printf("%s tier=%s cases=%d/%d execs=%d states=%d transitions=%d nontrivial=%d outcomes=%d unspecified=%d known=%d unlisted=%d exhaustive=%v wall=%.1fs\n",
		o.ID, o.Tier, total.Cases, n, total.Execs, states, transitions, total.Nontrivial, len(outcomes), total.Unspecified,
		len(viols)-nUnknown, nUnknown, exhaustive, wall)
	return exit
}

// resumePoint decides where a shard continues after its worker died or hung in case idx: on the
// same case after the recorded sub-case when there is one, otherwise on the next case.
func resumePoint(journalText string, idx int) (start int, resume string) {
	parts := strings.Split(strings.TrimSpace(journalText), ":")
	if len(parts) == 3 {
		if sub, err := strconv.Atoi(parts[2]); err == nil && sub >= 0 {
			return idx, fmt.Sprintf("%d:%d", idx, sub)
		}
	}
	return idx + 1, "-"
}

func firstLines(s string, n int) string {
	lines := strings.Split(s, "\n")
	if len(lines) > n {
		lines = lines[:n]
	}
	return strings.Join(lines, " / ")
}

func oneLine(s string, n int) string {
	s = strings.ReplaceAll(s, "\n", " / ")
	if len(s) > n {
		s = s[:n] + "..."
	}
	return s
}

func classifyCrash(stderr string) string {
	switch {
	case strings.Contains(stderr, "stack overflow") || strings.Contains(stderr, "goroutine stack exceeds"):
		return "stack-overflow"
	case strings.Contains(stderr, "concurrent map"):
		return "concurrent-map"
	case strings.Contains(stderr, "all goroutines are asleep"):
		return "deadlock"
	case strings.Contains(stderr, "unlock of unlocked"):
		return "unlock-of-unlocked"
	case strings.Contains(stderr, "out of memory"):
		return "out-of-memory"
	case strings.Contains(stderr, "panic:"):
		return "panic"
	case strings.Contains(stderr, "fatal error:"):
		return "fatal"
	}
	return "exit"
}

// CurProp / CurDesc identify the running case for abort handlers.
var (
	CurProp string
	curP    Prop
)

func CurDesc() any {
	if curP == nil || CurCase < 0 {
		return nil
	}
	return curP.Describe(CurCase)
}

// RunOne runs a single case in this process (replay without the parent / explorer sharding) and
// prints its violations.  With wantSig != "" the exit status says whether that signature reproduced.
func RunOne(id, tier string, idx int, wantSig string) int {
	runtime.GOMAXPROCS(1)
	debug.SetMaxStack(256 << 20)
	outW = bufio.NewWriterSize(os.Stdout, 1<<16)
	p := Lookup(id)
	if p == nil {
		fmt.Fprintf(os.Stderr, "unknown property %s\n", id)
		return 2
	}
	p.Init(tier)
	if idx < 0 || idx >= p.NumCases() {
		fmt.Fprintf(os.Stderr, "case %d outside 0..%d\n", idx, p.NumCases()-1)
		return 2
	}
	CurProp, curP, CurCase = id, p, idx
	d, _ := json.MarshalIndent(p.Describe(idx), "", " ")
	fmt.Printf("case %d of %s (%s):\n%s\n", idx, id, tier, d)
	r := p.RunCase(idx)
	fmt.Printf("execs=%d transitions=%d states=%d nontrivial=%v unspecified=%d violations=%d\n", r.Execs, r.Transitions, r.States, r.Nontrivial, r.Unspecified, len(r.Viol))
	found := false
	for _, v := range r.Viol {
		fmt.Printf("VIOLATION-IN-CASE sig=%s\n  %s\n", v.Sig, v.Msg)
		if v.Sig == wantSig {
			found = true
		}
	}
	if wantSig != "" {
		if found {
			fmt.Println("replay: the recorded violation reproduced")
			return 1
		}
		fmt.Println("replay: the recorded violation did NOT reproduce")
		return 0
	}
	if len(r.Viol) > 0 {
		return 1
	}
	return 0
}
