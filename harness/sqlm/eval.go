package sqlm

import (
	"math/big"
	"math"
	"strings"
)

// Env gives the reference evaluator access to the enclosing document (IN (SELECT ...)).
type Env struct {
	Doc     map[string]any
	Members []map[string]any // the rows an aggregate call ranges over (group members / filtered table)
}

// Unspec is returned (as the second result false) when SQL or the property leaves the answer open.

func lookup(row map[string]any, path string) any {
	if v, ok := row[path]; ok && !strings.Contains(path, ".") {
		return v
	}
	var cur any = row
	for _, k := range strings.Split(path, ".") {
		m, ok := cur.(map[string]any)
		if !ok {
			return nil
		}
		cur, ok = m[k]
		if !ok {
			return nil
		}
	}
	return cur
}

// Lookup resolves a dotted path through objects (NULL when a key is missing).
func Lookup(row map[string]any, path string) any { return lookup(row, path) }

func kindOf(v any) int {
	switch v.(type) {
	case nil:
		return 0
	case bool:
		return 1
	case float64, ExactInt:
		return 2
	case string:
		return 3
	}
	return 4
}

// ExactInt is a 64-bit integer column value that a double cannot hold (|v| >= 2^53): it takes part
// in comparisons by its exact value; arithmetic on it is left unspecified.
type ExactInt int64

func exactRat(v any) *big.Rat {
	switch t := v.(type) {
	case ExactInt:
		return new(big.Rat).SetInt64(int64(t))
	case float64:
		r := new(big.Rat)
		if r.SetFloat64(t) == nil {
			return nil
		}
		return r
	}
	return nil
}

// compareVals orders two non-NULL scalars of the same kind.
func compareVals(a, b any) (int, bool) {
	if kindOf(a) != kindOf(b) {
		return 0, false
	}
	_, ea := a.(ExactInt)
	_, eb := b.(ExactInt)
	if ea || eb {
		x, y := exactRat(a), exactRat(b)
		if x == nil || y == nil {
			return 0, false
		}
		return x.Cmp(y), true
	}
	switch x := a.(type) {
	case float64:
		y := b.(float64)
		switch {
		case x < y:
			return -1, true
		case x > y:
			return 1, true
		}
		return 0, true
	case string:
		return strings.Compare(x, b.(string)), true
	case bool:
		y := b.(bool)
		switch {
		case x == y:
			return 0, true
		case !x:
			return -1, true
		}
		return 1, true
	}
	return 0, false
}

// LikeMatch: % matches any sequence (incl. newlines), _ any single character, every other
// character matches itself, case-insensitively.
func LikeMatch(s, pat string) bool {
	rs, rp := []rune(strings.ToLower(s)), []rune(strings.ToLower(pat))
	var rec func(i, j int) bool
	memo := map[[2]int]bool{}
	seen := map[[2]int]bool{}
	rec = func(i, j int) bool {
		k := [2]int{i, j}
		if seen[k] {
			return memo[k]
		}
		seen[k] = true
		var r bool
		switch {
		case j == len(rp):
			r = i == len(rs)
		case rp[j] == '%':
			r = rec(i, j+1) || (i < len(rs) && rec(i+1, j))
		case i < len(rs) && (rp[j] == '_' || rp[j] == rs[i]):
			r = rec(i+1, j+1)
		}
		memo[k] = r
		return r
	}
	return rec(0, 0)
}

// normNum: documents built by Go programs (not decoded from JSON) hold numbers of every Go numeric
// type; the reference computes on their exact float64 value (callers keep them below 2^53).
func normNum(v any) any {
	switch t := v.(type) {
	case int:
		return float64(t)
	case int8:
		return float64(t)
	case int16:
		return float64(t)
	case int32:
		return float64(t)
	case int64:
		if t >= 1<<53 || t <= -(1<<53) {
			return ExactInt(t)
		}
		return float64(t)
	case uint:
		return float64(t)
	case uint8:
		return float64(t)
	case uint16:
		return float64(t)
	case uint32:
		return float64(t)
	case uint64:
		return float64(t)
	case float32:
		return float64(t)
	}
	return v
}

func isInt(f float64) bool { return f == math.Trunc(f) && math.Abs(f) < (1<<53) }

// Eval evaluates e on row.  ok == false: the answer is unspecified (NULL operand outside IS,
// division by zero, bit operations on non-integers, mixed kinds, ...), the oracle must abstain.
func Eval(e Expr, row map[string]any, env *Env) (v any, ok bool) {
	switch e := e.(type) {
	case Col:
		return normNum(lookup(row, e.Name)), true
	case Lit:
		if i, isInt := e.V.(int); isInt {
			return float64(i), true
		}
		return e.V, true
	case Bin:
		l, ok1 := Eval(e.L, row, env)
		r, ok2 := Eval(e.R, row, env)
		if !ok1 || !ok2 {
			return nil, false
		}
		if l == nil || r == nil {
			return nil, true // a binary arithmetic operator with a NULL operand yields NULL
		}
		x, okx := l.(float64)
		y, oky := r.(float64)
		if !okx || !oky {
			return nil, false
		}
		var res float64
		switch e.Op {
		case "+":
			res = x + y
		case "-":
			res = x - y
		case "*":
			res = x * y
		case "/":
			if y == 0 {
				return nil, false
			}
			res = x / y
		case "DIV":
			// integer-valued divisor: the quotient truncated toward zero (for an integer divisor,
			// truncating the dividend first gives the same result); fractional divisors: unspecified
			if y == 0 || !isInt(y) {
				return nil, false
			}
			res = math.Trunc(x / y)
		case "%":
			if y == 0 {
				return nil, false
			}
			res = math.Mod(x, y)
		case "&", "|", "^", "<<", ">>":
			if !isInt(x) || !isInt(y) || x < 0 || y < 0 {
				return nil, false
			}
			a, b := int64(x), int64(y)
			var o int64
			switch e.Op {
			case "&":
				o = a & b
			case "|":
				o = a | b
			case "^":
				o = a ^ b
			case "<<":
				switch {
				case b >= 64 || a == 0:
					// every bit is shifted out of a 64-bit operand, whatever its signedness
					o = 0
				case b >= 53:
					return nil, false
				default:
					o = a << uint(b)
				}
			case ">>":
				if b >= 64 {
					o = 0
				} else {
					o = a >> uint(b)
				}
			}
			res = float64(o)
			if math.Abs(res) >= (1 << 53) {
				return nil, false
			}
		default:
			return nil, false
		}
		if math.IsNaN(res) || math.IsInf(res, 0) {
			return nil, false
		}
		return res, true
	case Un:
		x, ok := Eval(e.X, row, env)
		if !ok || x == nil {
			return nil, false
		}
		switch e.Op {
		case "-":
			f, isNum := x.(float64)
			if !isNum {
				return nil, false
			}
			return -f, true
		case "~":
			f, isNum := x.(float64)
			if !isNum || !isInt(f) {
				return nil, false
			}
			return float64(^int64(f)), true // reading adopted: 64-bit two's complement
		case "!":
			b, isBool := x.(bool)
			if !isBool {
				return nil, false
			}
			return !b, true
		}
		return nil, false
	case Cmp:
		l, ok1 := Eval(e.L, row, env)
		r, ok2 := Eval(e.R, row, env)
		if !ok1 || !ok2 || l == nil || r == nil {
			return nil, false
		}
		c, okc := compareVals(l, r)
		if !okc {
			return nil, false
		}
		switch e.Op {
		case "=":
			return c == 0, true
		case "!=", "<>":
			return c != 0, true
		case "<":
			return c < 0, true
		case "<=":
			return c <= 0, true
		case ">":
			return c > 0, true
		case ">=":
			return c >= 0, true
		}
		return nil, false
	case And:
		l, ok1 := Eval(e.L, row, env)
		r, ok2 := Eval(e.R, row, env)
		lb, okl := l.(bool)
		rb, okr := r.(bool)
		if !ok1 || !ok2 || !okl || !okr {
			return nil, false
		}
		return lb && rb, true
	case Or:
		l, ok1 := Eval(e.L, row, env)
		r, ok2 := Eval(e.R, row, env)
		lb, okl := l.(bool)
		rb, okr := r.(bool)
		if !ok1 || !ok2 || !okl || !okr {
			return nil, false
		}
		return lb || rb, true
	case Not:
		x, ok := Eval(e.X, row, env)
		b, isBool := x.(bool)
		if !ok || !isBool {
			return nil, false
		}
		return !b, true
	case In:
		x, ok := Eval(e.X, row, env)
		if !ok || x == nil {
			return nil, false
		}
		found := false
		for _, it := range e.List {
			y, ok := Eval(it, row, env)
			if !ok || y == nil {
				return nil, false
			}
			c, okc := compareVals(x, y)
			if !okc {
				return nil, false
			}
			if c == 0 {
				found = true
			}
		}
		return found != e.Neg, true
	case InSub:
		x, ok := Eval(e.X, row, env)
		if !ok || x == nil || env == nil {
			return nil, false
		}
		path := strings.TrimPrefix(e.Path, "<-")
		arr, isArr := lookup(env.Doc, path).([]any)
		if !isArr {
			return nil, false
		}
		found := false
		for _, it := range arr {
			m, isMap := it.(map[string]any)
			if !isMap {
				return nil, false
			}
			y := lookup(m, e.Col)
			if y == nil {
				return nil, false
			}
			c, okc := compareVals(x, y)
			if !okc {
				return nil, false
			}
			if c == 0 {
				found = true
			}
		}
		return found != e.Neg, true
	case Between:
		x, ok0 := Eval(e.X, row, env)
		lo, ok1 := Eval(e.Lo, row, env)
		hi, ok2 := Eval(e.Hi, row, env)
		if !ok0 || !ok1 || !ok2 || x == nil || lo == nil || hi == nil {
			return nil, false
		}
		c1, oka := compareVals(x, lo)
		c2, okb := compareVals(x, hi)
		if !oka || !okb {
			return nil, false
		}
		return (c1 >= 0 && c2 <= 0) != e.Neg, true
	case Like:
		x, ok := Eval(e.X, row, env)
		s, isStr := x.(string)
		if !ok || !isStr {
			return nil, false
		}
		return LikeMatch(s, e.Pat) != e.Neg, true
	case Is:
		x, ok := Eval(e.X, row, env)
		if !ok {
			return nil, false
		}
		switch e.What {
		case "NULL":
			return x == nil, true
		case "NOT NULL":
			return x != nil, true
		}
		b, isBool := x.(bool)
		if !isBool {
			return nil, false
		}
		switch e.What {
		case "TRUE", "NOT FALSE":
			return b, true
		case "FALSE", "NOT TRUE":
			return !b, true
		}
		return nil, false
	case Agg:
		if env == nil {
			return nil, false
		}
		return EvalAgg(e, env.Members)
	case Case:
		for _, w := range e.Whens {
			c, ok := Eval(w.Cond, row, env)
			b, isBool := c.(bool)
			if !ok || !isBool {
				return nil, false
			}
			if b {
				return Eval(w.Val, row, env)
			}
		}
		if e.Else == nil {
			return nil, true
		}
		return Eval(e.Else, row, env)
	}
	return nil, false
}

// Filter returns the rows for which pred is true, in order; ok == false if the predicate is
// unspecified on some row.
func Filter(rows []any, pred Expr, env *Env) ([]any, bool) {
	if pred == nil {
		return rows, true
	}
	out := []any{}
	for _, r := range rows {
		m, isMap := r.(map[string]any)
		if !isMap {
			return nil, false
		}
		v, ok := Eval(pred, m, env)
		b, isBool := v.(bool)
		if !ok || !isBool {
			return nil, false
		}
		if b {
			out = append(out, r)
		}
	}
	return out, true
}

// EvalAgg computes an aggregate over the member rows.  SUM/MIN/MAX ignore NULL members and are NULL
// when no non-NULL member exists; AVG and COUNT(col) are specified only for columns without NULLs.
func EvalAgg(a Agg, members []map[string]any) (any, bool) {
	if a.Col == "" {
		if a.Fn != "COUNT" {
			return nil, false
		}
		return float64(len(members)), true
	}
	var vals []float64
	nulls := 0
	for _, m := range members {
		v := lookup(m, a.Col)
		if v == nil {
			nulls++
			continue
		}
		f, ok := v.(float64)
		if !ok {
			return nil, false
		}
		vals = append(vals, f)
	}
	switch a.Fn {
	case "COUNT":
		if nulls > 0 {
			return nil, false
		}
		return float64(len(vals)), true
	case "SUM", "MIN", "MAX":
		if len(vals) == 0 {
			return nil, true
		}
		r := vals[0]
		for _, f := range vals[1:] {
			switch a.Fn {
			case "SUM":
				r += f
			case "MIN":
				if f < r {
					r = f
				}
			case "MAX":
				if f > r {
					r = f
				}
			}
		}
		return r, true
	case "AVG":
		if nulls > 0 {
			return nil, false
		}
		if len(vals) == 0 {
			return nil, true
		}
		s := 0.0
		for _, f := range vals {
			s += f
		}
		return s / float64(len(vals)), true
	}
	return nil, false
}
