// Package sqlm holds the generators' own query AST, its rendering to MySQL-dialect text (what
// genql is given) and the reference evaluator (what the oracle expects).  Nothing here imports
// genql: the reference is independent of the implementation.
package sqlm

import (
	"fmt"
	"strconv"
	"strings"
)

type Expr interface{ sql(sb *strings.Builder) }

type (
	Col struct{ Name string } // column, or a path selector rendered in backticks
	Lit struct{ V any }       // nil | bool | float64 | string
	Bin struct {
		Op   string // + - * / DIV % & | ^ << >>
		L, R Expr
	}
	Un struct {
		Op string // - ~ !
		X  Expr
	}
	Cmp struct {
		Op   string // = != < <= > >=
		L, R Expr
	}
	And struct{ L, R Expr }
	Or  struct{ L, R Expr }
	Not struct{ X Expr }
	In  struct {
		X    Expr
		List []Expr
		Neg  bool
	}
	InSub struct { // x [NOT] IN (SELECT col FROM `path`)
		X    Expr
		Col  string
		Path string
		Neg  bool
	}
	Between struct {
		X, Lo, Hi Expr
		Neg       bool
	}
	Like struct {
		X   Expr
		Pat string
		Neg bool
	}
	Is struct {
		X    Expr
		What string // NULL | NOT NULL | TRUE | FALSE | NOT TRUE | NOT FALSE
	}
	When struct{ Cond, Val Expr }
	Case struct {
		Whens []When
		Else  Expr
	}
	Call struct { // function call, optionally with an execution qualifier
		Qual string
		Name string
		Args []Expr
	}
	Raw struct{ Text string } // verbatim SQL fragment (the reference cannot evaluate it)
	Agg struct {              // aggregate call: COUNT(*) when Col == "", else FN(col)
		Fn  string // COUNT SUM MIN MAX AVG
		Col string
	}
)

func needTick(name string) bool {
	if name == "" {
		return true
	}
	for i, c := range name {
		if !(c == '_' || c >= 'a' && c <= 'z' || c >= 'A' && c <= 'Z' || i > 0 && c >= '0' && c <= '9') {
			return true
		}
	}
	switch strings.ToLower(name) {
	case "a", "b", "c", "d", "e", "g", "h", "k", "m", "n", "o", "v", "w", "x", "y", "z", "id", "a2", "b2", "s", "t", "u", "p", "q", "r":
		return false
	}
	return true // quote everything else: cheaper than tracking the parser's keyword list
}

func Ident(name string) string {
	if !needTick(name) {
		return name
	}
	return "`" + strings.ReplaceAll(name, "`", "``") + "`"
}

// Str renders a string literal in the MySQL dialect (backslash escapes honoured by the parser).
func Str(s string) string {
	var sb strings.Builder
	sb.WriteByte('\'')
	for i := 0; i < len(s); i++ {
		switch c := s[i]; c {
		case '\'':
			sb.WriteString("''")
		case '\\':
			sb.WriteString("\\\\")
		case '\n':
			sb.WriteString("\\n")
		case '\r':
			sb.WriteString("\\r")
		case 0:
			sb.WriteString("\\0")
		default:
			sb.WriteByte(c)
		}
	}
	sb.WriteByte('\'')
	return sb.String()
}

func Num(f float64) string {
	if f == float64(int64(f)) && f > -1e15 && f < 1e15 {
		return strconv.FormatInt(int64(f), 10)
	}
	return strconv.FormatFloat(f, 'f', -1, 64)
}

func (e Col) sql(sb *strings.Builder) { sb.WriteString(Ident(e.Name)) }
func (e Lit) sql(sb *strings.Builder) {
	switch v := e.V.(type) {
	case nil:
		sb.WriteString("NULL")
	case bool:
		if v {
			sb.WriteString("true")
		} else {
			sb.WriteString("false")
		}
	case float64:
		if v < 0 {
			sb.WriteString("(" + Num(v) + ")")
		} else {
			sb.WriteString(Num(v))
		}
	case int:
		sb.WriteString(strconv.Itoa(v))
	case string:
		sb.WriteString(Str(v))
	default:
		panic(fmt.Sprintf("Lit: %T", e.V))
	}
}
func paren(sb *strings.Builder, e Expr) {
	switch e.(type) {
	case Col, Lit, Call, Agg:
		e.sql(sb)
	default:
		sb.WriteByte('(')
		e.sql(sb)
		sb.WriteByte(')')
	}
}
func (e Bin) sql(sb *strings.Builder) {
	paren(sb, e.L)
	sb.WriteString(" " + e.Op + " ")
	paren(sb, e.R)
}
func (e Un) sql(sb *strings.Builder) {
	sb.WriteString(e.Op)
	sb.WriteByte('(')
	e.X.sql(sb)
	sb.WriteByte(')')
}
func (e Cmp) sql(sb *strings.Builder) {
	paren(sb, e.L)
	sb.WriteString(" " + e.Op + " ")
	paren(sb, e.R)
}
func (e And) sql(sb *strings.Builder) {
	paren(sb, e.L)
	sb.WriteString(" AND ")
	paren(sb, e.R)
}
func (e Or) sql(sb *strings.Builder) {
	paren(sb, e.L)
	sb.WriteString(" OR ")
	paren(sb, e.R)
}
func (e Not) sql(sb *strings.Builder) {
	sb.WriteString("NOT ")
	paren(sb, e.X)
}
func (e In) sql(sb *strings.Builder) {
	paren(sb, e.X)
	if e.Neg {
		sb.WriteString(" NOT")
	}
	sb.WriteString(" IN (")
	for i, x := range e.List {
		if i > 0 {
			sb.WriteString(", ")
		}
		x.sql(sb)
	}
	sb.WriteByte(')')
}
func (e InSub) sql(sb *strings.Builder) {
	paren(sb, e.X)
	if e.Neg {
		sb.WriteString(" NOT")
	}
	sb.WriteString(" IN (SELECT " + Ident(e.Col) + " FROM " + Ident(e.Path) + ")")
}
func (e Between) sql(sb *strings.Builder) {
	paren(sb, e.X)
	if e.Neg {
		sb.WriteString(" NOT")
	}
	sb.WriteString(" BETWEEN ")
	paren(sb, e.Lo)
	sb.WriteString(" AND ")
	paren(sb, e.Hi)
}
func (e Like) sql(sb *strings.Builder) {
	paren(sb, e.X)
	if e.Neg {
		sb.WriteString(" NOT")
	}
	sb.WriteString(" LIKE " + Str(e.Pat))
}
func (e Is) sql(sb *strings.Builder) {
	paren(sb, e.X)
	sb.WriteString(" IS " + e.What)
}
func (e Case) sql(sb *strings.Builder) {
	sb.WriteString("CASE")
	for _, w := range e.Whens {
		sb.WriteString(" WHEN ")
		w.Cond.sql(sb)
		sb.WriteString(" THEN ")
		w.Val.sql(sb)
	}
	if e.Else != nil {
		sb.WriteString(" ELSE ")
		e.Else.sql(sb)
	}
	sb.WriteString(" END")
}
func (e Call) sql(sb *strings.Builder) {
	if e.Qual != "" {
		sb.WriteString(e.Qual + ".")
	}
	sb.WriteString(e.Name + "(")
	for i, x := range e.Args {
		if i > 0 {
			sb.WriteString(", ")
		}
		x.sql(sb)
	}
	sb.WriteByte(')')
}
func (e Raw) sql(sb *strings.Builder) { sb.WriteString(e.Text) }
func (e Agg) sql(sb *strings.Builder) {
	if e.Col == "" {
		sb.WriteString(e.Fn + "(*)")
		return
	}
	// a dotted column of two plain identifiers is written qualified and unquoted (o.v): that is the
	// form in which the parser separates qualifier and name
	if parts := strings.Split(e.Col, "."); len(parts) == 2 && !needTick(parts[0]) && !needTick(parts[1]) {
		sb.WriteString(e.Fn + "(" + e.Col + ")")
		return
	}
	sb.WriteString(e.Fn + "(" + Ident(e.Col) + ")")
}

func SQL(e Expr) string {
	var sb strings.Builder
	e.sql(&sb)
	return sb.String()
}

// Item is one select-list entry.
type Item struct {
	E    Expr
	As   string
	Star bool
}

type OrderKey struct {
	Col  string
	Desc bool
}

// Select is a single-table SELECT in the fragment the reference understands.
type Select struct {
	Distinct bool
	Items    []Item
	From     string // table path (rendered in backticks)
	Where    Expr
	GroupBy  []string
	Having   Expr
	OrderBy  []OrderKey
	Limit    int  // -1 absent
	Offset   int  // -1 absent
	CommaLim bool // LIMIT off, n spelling
}

func NewSelect(from string, items ...Item) *Select {
	return &Select{From: from, Items: items, Limit: -1, Offset: -1}
}

func (s *Select) SQL() string {
	var sb strings.Builder
	sb.WriteString("SELECT ")
	if s.Distinct {
		sb.WriteString("DISTINCT ")
	}
	for i, it := range s.Items {
		if i > 0 {
			sb.WriteString(", ")
		}
		if it.Star {
			sb.WriteString("*")
			continue
		}
		it.E.sql(&sb)
		if it.As != "" {
			sb.WriteString(" AS " + Ident(it.As))
		}
	}
	sb.WriteString(" FROM " + Ident(s.From))
	if s.Where != nil {
		sb.WriteString(" WHERE ")
		s.Where.sql(&sb)
	}
	if len(s.GroupBy) > 0 {
		sb.WriteString(" GROUP BY ")
		for i, g := range s.GroupBy {
			if i > 0 {
				sb.WriteString(", ")
			}
			sb.WriteString(Ident(g))
		}
	}
	if s.Having != nil {
		sb.WriteString(" HAVING ")
		s.Having.sql(&sb)
	}
	if len(s.OrderBy) > 0 {
		sb.WriteString(" ORDER BY ")
		for i, k := range s.OrderBy {
			if i > 0 {
				sb.WriteString(", ")
			}
			sb.WriteString(Ident(k.Col))
			if k.Desc {
				sb.WriteString(" DESC")
			}
		}
	}
	if s.Limit >= 0 {
		switch {
		case s.Offset < 0:
			sb.WriteString(" LIMIT " + strconv.Itoa(s.Limit))
		case s.CommaLim:
			sb.WriteString(" LIMIT " + strconv.Itoa(s.Offset) + ", " + strconv.Itoa(s.Limit))
		default:
			sb.WriteString(" LIMIT " + strconv.Itoa(s.Limit) + " OFFSET " + strconv.Itoa(s.Offset))
		}
	}
	return sb.String()
}
