// Package explore is the deviation-bounded depth-first explorer over choice traces.
//
// An execution is determined by its sequence of choices (which thread runs at a scheduling point
// with several enabled threads, which order a map is ranged in).  explore(prefix) replays prefix,
// answers 0 afterwards, hands the execution to the oracle and then branches on every later point
// and every alternative whose accumulated deviation cost stays within the bound.
//
// Costs: a schedule alternative costs 1 when the running thread was still enabled (a preemption)
// and 0 otherwise; a map-order alternative costs 1.
package explore

import (
	"github.com/vedadiyan/genql/vrt"
)

// Heartbeat, if set, is called once per execution (progress signal for the parent's watchdog).
var Heartbeat func()

type Stats struct {
	Execs       int64
	Transitions int64
	Points      int64
	States      map[uint64]struct{}
	BoundDone   int  // largest bound whose exploration finished
	Capped      bool // the execution cap was hit
	MaxThreads  int
	// Diverged counts choice prefixes that did not fit their execution even after being run again
	// (only possible once threads park in the Go runtime - channel operations, select -, whose
	// choices among several ready cases and wake-up timing this scheduler does not own); such a
	// prefix is neither checked nor expanded, and the exploration is not exhaustive
	Diverged int64
}

type Explorer struct {
	// Run performs one execution with the given choice prefix.
	Run func(prefix []int32) *vrt.Result
	// Check is the oracle for one execution; returning false stops the exploration.
	Check    func(prefix []int32, r *vrt.Result) bool
	MaxExecs int64
	// Optional per-kind caps (0 = no cap besides the total bound): at most MaxSched preemptions and
	// at most MaxMap map-order deviations in one execution.
	MaxSched int
	MaxMap   int
	Stats    Stats
	stop     bool
	bound    int
}

func altCost(p *vrt.Point) int {
	if p.Kind == vrt.KindSched && !p.RunEnabled {
		return 0
	}
	if p.Kind == vrt.KindSelect {
		return 0 // which ready communication a select takes: free, like a switch at a blocking point
	}
	return 1
}

// Explore iterates the deviation bound 0..maxBound (each iteration re-explores from scratch, so the
// first counterexample has the fewest deviations).  Executions of lower bounds are not re-counted.
func (e *Explorer) Explore(maxBound int) {
	e.Stats.States = map[uint64]struct{}{}
	e.Stats.BoundDone = -1
	if vrt.Tolerant {
		// process-wide state that cannot be reset: one discarded execution first, so that the
		// executions that count all start from the state their predecessor leaves behind
		e.Run(nil)
	}
	for b := 0; b <= maxBound && !e.stop; b++ {
		e.bound = b
		e.explore(nil, 0, 0, b)
		if e.stop {
			break
		}
		e.Stats.BoundDone = b
	}
}

// explore runs the execution for prefix; only executions whose cost is exactly `exact` are new in
// this iteration of the bound (cheaper ones were explored by earlier iterations), but cheaper
// executions still have to be re-run to reach their more expensive descendants.
func (e *Explorer) explore(prefix []int32, cost int, mapCost int, exact int) {
	if e.stop {
		return
	}
	if e.MaxExecs > 0 && e.Stats.Execs >= e.MaxExecs {
		e.Stats.Capped = true
		e.stop = true
		return
	}
	r := e.Run(prefix)
	for tries := 0; r.Diverged && tries < 5; tries++ {
		r = e.Run(prefix)
	}
	if Heartbeat != nil {
		Heartbeat()
	}
	if r.Diverged {
		e.Stats.Diverged++
		e.Stats.Capped = true // reported as a capped (not exhaustive) case
		return
	}
	if cost == exact {
		e.Stats.Execs++
		e.Stats.Transitions += r.Transitions
		e.Stats.Points += int64(len(r.Points))
		if r.Threads > e.Stats.MaxThreads {
			e.Stats.MaxThreads = r.Threads
		}
		for i := range r.Points {
			e.Stats.States[r.Points[i].Hash] = struct{}{}
		}
		if !e.Check(prefix, r) {
			e.stop = true
			return
		}
	}
	for i := len(prefix); i < len(r.Points); i++ {
		p := &r.Points[i]
		c := cost + altCost(p)
		if c > e.bound {
			continue
		}
		mc := mapCost
		if p.Kind == vrt.KindMap {
			mc++
			if e.MaxMap > 0 && mc > e.MaxMap {
				continue
			}
		} else if e.MaxSched > 0 && c-mc > e.MaxSched {
			continue
		}
		for alt := int32(1); alt < p.N; alt++ {
			np := make([]int32, i+1)
			copy(np, prefix)
			np[i] = alt
			e.explore(np, c, mc, exact)
			if e.stop {
				return
			}
		}
	}
}
