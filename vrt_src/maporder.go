//go:build verif

package vrt

import (
	"fmt"
	"iter"
	"reflect"
	"sort"
	"strconv"
)

// RangeMap replaces `range m` over a map in instrumented code.  The default order is the keys
// sorted by a type-aware total order (deterministic); when Config.MapOrder is set the order is a
// choice the explorer owns: all n! permutations for n <= 4 keys, otherwise identity, the n-1
// rotations and the reversal.
//
// Semantics kept from the language: an entry removed before it is reached is not produced; the
// value produced is the one stored when the entry is reached.
func RangeMap[M ~map[K]V, K comparable, V any](m M, site int) iter.Seq2[K, V] {
	return func(yield func(K, V) bool) {
		n := len(m)
		if n == 0 {
			return
		}
		if n == 1 {
			for k, v := range m {
				if !yield(k, v) {
					return
				}
			}
			return
		}
		keys := make([]K, 0, n)
		strs := make([]string, 0, n)
		for k := range m {
			keys = append(keys, k)
			strs = append(strs, keyString(any(k)))
		}
		idx := make([]int, n)
		for i := range idx {
			idx[i] = i
		}
		sort.SliceStable(idx, func(a, b int) bool { return strs[idx[a]] < strs[idx[b]] })
		order := idx
		if mapChoices() {
			c := int(choose(KindMap, int32(permCount(n)), false, int32(site)))
			order = applyPerm(idx, c)
		}
		for _, i := range order {
			k := keys[i]
			v, ok := m[k]
			if !ok {
				continue
			}
			if !yield(k, v) {
				return
			}
		}
	}
}

//go:norace
func mapChoices() bool { return g.active != 0 && g.cfg.MapOrder }

func permCount(n int) int {
	switch {
	case n <= 1:
		return 1
	case n == 2:
		return 2
	case n == 3:
		return 6
	case n == 4:
		return 24
	}
	return n + 1
}

// applyPerm returns the c-th arrangement of base (0 = base itself).
func applyPerm(base []int, c int) []int {
	n := len(base)
	if c == 0 {
		return base
	}
	out := make([]int, 0, n)
	if n <= 4 {
		// c-th permutation in lexicographic order (factorial number system)
		rest := append([]int(nil), base...)
		f := 1
		for i := 2; i < n; i++ {
			f *= i
		}
		for i := n - 1; i >= 0; i-- {
			q := c / f
			c = c % f
			out = append(out, rest[q])
			rest = append(rest[:q], rest[q+1:]...)
			if i > 0 {
				f /= i
			}
		}
		return out
	}
	if c == n { // reversal
		for i := n - 1; i >= 0; i-- {
			out = append(out, base[i])
		}
		return out
	}
	out = append(out, base[c:]...)
	out = append(out, base[:c]...)
	return out
}

func keyString(k any) string {
	switch v := k.(type) {
	case string:
		return "s" + v
	case int:
		return "i" + strconv.FormatInt(int64(v)+(1<<62), 36)
	case int64:
		return "i" + strconv.FormatInt(v/2+(1<<62), 36) + strconv.FormatInt(v&1, 10)
	}
	rv := reflect.ValueOf(k)
	switch rv.Kind() {
	case reflect.String:
		return "s" + rv.String()
	case reflect.Pointer:
		if rv.IsNil() {
			return "p"
		}
		return "p" + fingerprint(rv.Elem(), 4)
	}
	return "v" + fmt.Sprintf("%v", k)
}

// fingerprint renders a value deterministically (map keys sorted) to a bounded depth.
func fingerprint(v reflect.Value, depth int) string {
	if depth == 0 {
		return "~"
	}
	switch v.Kind() {
	case reflect.Interface, reflect.Pointer:
		if v.IsNil() {
			return "nil"
		}
		return fingerprint(v.Elem(), depth-1)
	case reflect.Map:
		keys := v.MapKeys()
		strs := make([]string, len(keys))
		for i, k := range keys {
			strs[i] = fmt.Sprintf("%v", k.Interface()) + "=" + fingerprint(v.MapIndex(k), depth-1)
		}
		sort.Strings(strs)
		s := "{"
		for _, x := range strs {
			s += x + ","
		}
		return s + "}"
	case reflect.Slice, reflect.Array:
		s := "["
		for i := 0; i < v.Len(); i++ {
			s += fingerprint(v.Index(i), depth-1) + ","
		}
		return s + "]"
	case reflect.Func, reflect.Chan, reflect.UnsafePointer:
		return v.Kind().String()
	}
	if v.CanInterface() {
		return fmt.Sprintf("%T:%v", v.Interface(), v.Interface())
	}
	return v.Kind().String()
}
