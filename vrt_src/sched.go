//go:build verif

// Package vrt is the verification runtime injected into the genql build (as the virtual package
// github.com/vedadiyan/genql/vrt, through `go build -overlay`).  It provides
//
//   - a cooperative scheduler: library goroutines and harness threads become "threads" that only
//     run while they hold the turn; every sync operation, spawn, exit and Yield is a scheduling
//     point at which the explorer decides who runs next;
//   - drop-in shims for sync.Mutex / RWMutex / WaitGroup / Once that call the scheduler first and
//     the real primitive afterwards (so the race detector sees the program's own edges only);
//   - a seam for Go map iteration order (RangeMap);
//   - an event log for harness functions.
//
// The turn is handed over through a plain word polled in a runtime.Gosched loop inside
// //go:norace functions (GOMAXPROCS must be 1).  All scheduler bookkeeping lives in fixed-size
// arrays that are only touched from //go:norace code, so the hand-off creates no happens-before
// edge for the race detector.
package vrt

import (
	"fmt"
	"os"
	"runtime"
	"time"
	realsync "sync"
	"unsafe"
)

const (
	MaxThreads = 2048
	MaxPoints  = 1 << 16
	MaxEvents  = 1 << 14
	StepCap    = 1 << 21
)

type opKind int32

const (
	opNone opKind = iota
	opStart
	opLock
	opUnlock
	opRLock
	opRUnlock
	opWLock
	opWUnlock
	opAdd
	opWait
	opGo
	opYield
	opExit
	opJoinAll
	opExt      // inside an operation that may block outside the scheduler (channel, select)
	opResume   // back from such an operation, waiting for the turn
	opCondWait // sync.Cond.Wait: enabled once signalled
	opGosched  // runtime.Gosched of instrumented code: the other threads come first, in cyclic order
)

// Choice-point kinds.
const (
	KindSched uint8 = 0
	KindMap   uint8 = 1
	KindUser  uint8 = 2
	// KindSelect: which of several ready communications a select statement takes (free, like a
	// switch at a blocking point)
	KindSelect uint8 = 3
)

type thread struct {
	state    int32 // 0 unused, 1 live, 2 finished
	op       opKind
	obj      unsafe.Pointer
	steps    int32
	released bool
	ext      bool // parked (or about to park) in an uninstrumented blocking operation: not schedulable
}

// Point is one recorded choice point (only points with >= 2 alternatives are recorded).
type Point struct {
	Kind       uint8
	N          int32 // number of alternatives
	Chosen     int32
	RunEnabled bool   // KindSched: the running thread was enabled (alternatives != 0 are preemptions)
	Site       int32  // KindMap: range site id; KindSched: running thread
	Hash       uint64 // scheduler state hash at this point
}

type Event struct {
	Thread int32
	Tag    int32
	A, B   int64
}

// Config selects which kinds of nondeterminism become explorer-owned choice points.
type Config struct {
	Sched    bool // schedule choices (otherwise: always keep running / lowest id)
	MapOrder bool // map iteration order choices (otherwise: sorted order)
	Quiet    bool // registered quiet mutexes are not scheduling points (see SetQuiet)
}

type Result struct {
	Points      []Point
	Transitions int64 // scheduling points passed (incl. those without alternatives)
	Threads     int
	Events      []Event
	GPanic      string // first panic that reached the top of a library goroutine ("" if none)
	Hashes      []uint64
	ExtUsed     bool // some thread parked in a channel operation (timing of the runtime's wake-ups is not owned)
	Diverged    bool // the choice prefix did not fit this execution (possible only when ExtUsed)
}

type global struct {
	active      int32
	turn        int32
	cur         int32
	nthreads    int32
	threads     [MaxThreads]thread
	cfg         Config
	prefix      [MaxPoints]int32
	prefixLen   int32
	points      [MaxPoints]Point
	npoints     int32
	transitions int64
	events      [MaxEvents]Event
	nevents     int32
	gpanic      string
	all         realsync.WaitGroup
	mapSites    int64
	extUsed     bool // a thread has parked outside the scheduler in this execution
	diverged    bool // a replayed choice did not fit (only tolerated when extUsed)
	runs        int64
}

var g global

// Tolerant is set by the harness when the tree under test keeps process-wide state the harness has
// no hook to reset between executions (the selector cache in another shape than the one the hooks
// file knows): executions are then not independent of their predecessors, a replayed prefix may not
// fit, and that is handled like the divergences of executions with threads parked in the runtime -
// run again, then skipped and reported - instead of being a hard error.
var Tolerant bool

// OnAbort is called (on the aborting thread) when an execution cannot continue: deadlock,
// divergence while replaying a prefix, step cap, table overflow.  It must not return.
var OnAbort = func(kind string, detail string) {
	fmt.Fprintf(os.Stderr, "vrt: abort: %s: %s\n", kind, detail)
	os.Exit(3)
}

//go:norace
func Active() bool { return g.active != 0 }

// Run executes body as thread 0 of a controlled execution and returns once every thread spawned
// through Go has finished.  prefix holds the choices to replay; later choice points answer 0.
//
//go:norace
func Run(cfg Config, prefix []int32, body func()) *Result {
	if g.active != 0 {
		panic("vrt.Run: nested")
	}
	if len(prefix) > MaxPoints {
		panic("vrt.Run: prefix too long")
	}
	for i := range g.threads {
		g.threads[i] = thread{}
	}
	g.cfg = cfg
	g.prefixLen = int32(len(prefix))
	for i, c := range prefix {
		g.prefix[i] = c
	}
	g.npoints = 0
	g.transitions = 0
	g.nevents = 0
	g.gpanic = ""
	g.extUsed = false
	g.diverged = false
	g.runs++
	nparked = 0
	g.nthreads = 1
	g.threads[0] = thread{state: 1}
	g.cur = 0
	g.turn = 0
	g.active = 1
	body()
	// wait for every other thread
	point(opJoinAll, nil)
	g.active = 0
	g.all.Wait()
	if g.npoints < g.prefixLen && (g.extUsed || Tolerant) {
		g.diverged = true
	} else if g.npoints < g.prefixLen {
		OnAbort("divergence", fmt.Sprintf("prefix of %d choices but execution had only %d choice points", g.prefixLen, g.npoints))
	}
	res := &Result{
		Points:      make([]Point, g.npoints),
		Transitions: g.transitions,
		Threads:     int(g.nthreads),
		Events:      make([]Event, g.nevents),
		GPanic:      g.gpanic,
		ExtUsed:     g.extUsed,
		Diverged:    g.diverged,
	}
	copy(res.Points, g.points[:g.npoints])
	copy(res.Events, g.events[:g.nevents])
	return res
}

//go:norace
func enabled(i int32) bool {
	t := &g.threads[i]
	if t.state != 1 || t.ext {
		return false
	}
	switch t.op {
	case opCondWait:
		return t.released
	case opLock:
		return !(*Mutex)(t.obj).held
	case opWLock:
		rw := (*RWMutex)(t.obj)
		return !rw.w && rw.r == 0
	case opRLock:
		return !(*RWMutex)(t.obj).w
	case opWait:
		return t.released || (*WaitGroup)(t.obj).n == 0
	case opJoinAll:
		for j := int32(0); j < g.nthreads; j++ {
			if j != i && g.threads[j].state == 1 {
				return false
			}
		}
		return true
	}
	return true
}

//go:norace
func stateHash() uint64 {
	h := uint64(1469598103934665603)
	for i := int32(0); i < g.nthreads; i++ {
		t := &g.threads[i]
		for _, x := range [3]uint64{uint64(t.state), uint64(t.steps), uint64(t.op)} {
			h ^= x + 0x9e3779b97f4a7c15
			h *= 1099511628211
		}
	}
	return h
}

// choose records a choice point with n >= 2 alternatives and returns the decided alternative.
//
//go:norace
func choose(kind uint8, n int32, runEnabled bool, site int32) int32 {
	i := g.npoints
	if i >= MaxPoints {
		OnAbort("overflow", "more than MaxPoints choice points in one execution")
	}
	c := int32(0)
	if i < g.prefixLen {
		c = g.prefix[i]
		if (c < 0 || c >= n) && (g.extUsed || Tolerant) {
			// the runtime decides some things this scheduler does not own once threads park in it
			// (which ready case a select takes, when a timer fires): the execution is marked and the
			// explorer runs the prefix again instead of trusting it
			g.diverged = true
			c = 0
		}
		if c < 0 || c >= n {
			OnAbort("divergence", fmt.Sprintf("choice %d at point %d out of range (arity %d, kind %d)", c, i, n, kind))
		}
	}
	g.points[i] = Point{Kind: kind, N: n, Chosen: c, RunEnabled: runEnabled, Site: site, Hash: stateHash()}
	g.npoints++
	return c
}

// pick decides which thread runs next; me is the thread at the scheduling point.
//
//go:norace
func pick(me int32) int32 {
	var list [MaxThreads]int32
	n := int32(0)
	meEnabled := enabled(me)
	if g.threads[me].state == 1 && g.threads[me].op == opGosched {
		// a yield inside a polling loop: every other enabled thread comes before the caller, starting
		// with the one after it (round robin), so that the thread the loop waits for gets its turn
		// under the default choices as well; the switch is free
		for d := int32(1); d < g.nthreads; d++ {
			j := (me + d) % g.nthreads
			if enabled(j) {
				list[n] = j
				n++
			}
		}
		if n > 0 {
			if n == 1 || !g.cfg.Sched {
				return list[0]
			}
			return list[choose(KindSched, n, false, me)]
		}
	}
	if meEnabled {
		list[0] = me
		n = 1
	}
	for j := int32(0); j < g.nthreads; j++ {
		if j != me && enabled(j) {
			list[n] = j
			n++
		}
	}
	if n == 0 {
		if anyExt() {
			// nobody can run now, but a thread is inside a channel operation / select / sleep that
			// may complete by itself or is being completed right now: nobody holds the turn until a
			// thread comes back (ExtResume claims it)
			return -1
		}
		OnAbort("deadlock", describeThreads())
	}
	if n == 1 {
		return list[0]
	}
	if !g.cfg.Sched {
		return list[0]
	}
	c := choose(KindSched, n, meEnabled, me)
	return list[c]
}

//go:norace
func describeThreads() string {
	s := ""
	for j := int32(0); j < g.nthreads; j++ {
		t := &g.threads[j]
		s += fmt.Sprintf("[t%d state=%d op=%d steps=%d]", j, t.state, t.op, t.steps)
	}
	if g.gpanic != "" {
		s += " after goroutine panic: " + g.gpanic
	}
	return s
}

// point is a scheduling point of the running thread.
//
//go:norace
func point(op opKind, obj unsafe.Pointer) {
	if g.active == 0 {
		return
	}
	me := g.cur
	t := &g.threads[me]
	t.op, t.obj = op, obj
	t.steps++
	g.transitions++
	if g.transitions > StepCap {
		OnAbort("livelock", "step cap exceeded: "+describeThreads())
	}
	next := pick(me)
	if next != me {
		g.cur = next
		g.turn = next
		waitTurn(me)
	}
	t.op, t.obj = opNone, nil
	t.released = false
}

//go:norace
func anyExt() bool {
	for j := int32(0); j < g.nthreads; j++ {
		if g.threads[j].state == 1 && g.threads[j].ext {
			return true
		}
	}
	return false
}

// ExtDeadline is how long an execution in which no thread can be scheduled waits for a thread that
// is inside an uninstrumented blocking operation before it is declared deadlocked.
var ExtDeadline = 20 * time.Second

// waitTurn spins until thread me holds the turn.  While nobody holds it (every schedulable thread
// is blocked and some thread is parked in a channel operation) the first thread that becomes
// enabled again takes it; if that does not happen within ExtDeadline the execution is deadlocked.
//
//go:norace
func waitTurn(me int32) {
	spins := 0
	var since time.Time
	for g.turn != me {
		if g.turn == -1 {
			if enabled(me) {
				// threads run one at a time (GOMAXPROCS=1) and this check-and-set has no yield in it
				g.cur = me
				g.turn = me
				return
			}
			spins++
			if spins&1023 == 0 {
				if since.IsZero() {
					since = time.Now()
				} else if time.Since(since) > ExtDeadline {
					OnAbort("deadlock", "no thread can run and the threads parked in channel operations did not come back: "+describeThreads())
				}
			}
		} else {
			spins = 0
			since = time.Time{}
		}
		runtime.Gosched()
	}
}

// Threads parked in channel operations.  A record names the channels (and directions) the thread
// waits on; records are kept in arrival order, which is the order of the runtime's wait queues.
// When the thread that holds the turn completes an operation on one of these channels it knows
// which parked thread that operation releases (the first waiting in the opposite direction) and
// marks it schedulable on its behalf - the released goroutine itself may not have run yet, and the
// set of enabled threads at the holder's next scheduling point must not depend on that.
const (
	DirRecv int8 = 1
	DirSend int8 = 2
)

type ChanRef struct {
	P   unsafe.Pointer
	Dir int8
}

type parkedRec struct {
	thread int32
	n      int32
	ch     [8]ChanRef
}

var parked [256]parkedRec
var nparked int32

//go:norace
func unpark(thread int32) {
	for i := int32(0); i < nparked; i++ {
		if parked[i].thread == thread {
			// (element-wise: the runtime's slice copy is race-annotated, this bookkeeping must stay
			// invisible to the race detector)
			for k := i; k+1 < nparked; k++ {
				parked[k] = parked[k+1]
			}
			nparked--
			return
		}
	}
}

// released is called by the turn holder after it completed an operation on channel p that releases
// one thread waiting in direction dir (all of them if all is set: close).
//
//go:norace
func released(p unsafe.Pointer, dir int8, all bool) {
	if g.active == 0 {
		return
	}
	for i := int32(0); i < nparked; i++ {
		r := &parked[i]
		hit := false
		for k := int32(0); k < r.n; k++ {
			if r.ch[k].P == p && (all || r.ch[k].Dir == dir) {
				hit = true
			}
		}
		if hit {
			t := &g.threads[r.thread]
			t.op, t.obj = opResume, nil
			t.ext = false
			for k := i; k+1 < nparked; k++ {
				parked[k] = parked[k+1]
			}
			nparked--
			if !all {
				return
			}
			i--
		}
	}
}

// ExtBlock announces that the running thread is about to perform an operation that may block
// outside the scheduler (a channel operation that cannot complete at once, a select without
// default) on the given channels.  The thread gives the turn away - to another enabled thread if
// there is one, to nobody otherwise - and then performs the real operation; ExtResume must follow.
//
//go:norace
func ExtBlock(chs ...ChanRef) int32 {
	if g.active == 0 {
		return -1
	}
	me := g.cur
	t := &g.threads[me]
	t.steps++
	g.transitions++
	g.extUsed = true
	if g.transitions > StepCap {
		OnAbort("livelock", "step cap exceeded: "+describeThreads())
	}
	t.op, t.obj = opExt, nil
	t.ext = true
	if !monitorOn {
		monitorOn = true
		go extMonitor()
	}
	if nparked < int32(len(parked)) {
		r := &parked[nparked]
		r.thread = me
		r.n = 0
		for _, c := range chs {
			if r.n < int32(len(r.ch)) && c.P != nil {
				r.ch[r.n] = c
				r.n++
			}
		}
		nparked++
	}
	next := pick(me) // me is not enabled: a free switch, still enumerated
	g.cur = next
	g.turn = next
	return me
}

var monitorOn bool

// extMonitor notices the one situation no controlled thread can: every live thread is parked in the
// runtime (nobody spins in waitTurn, so nobody can run the deadline check).  It only reads the
// scheduler's words.
//
//go:norace
func extMonitor() {
	var lastRun, lastTr int64
	var since time.Time
	for {
		time.Sleep(200 * time.Millisecond)
		if g.active == 0 || g.turn != -1 || !anyExt() {
			since = time.Time{}
			continue
		}
		if since.IsZero() || lastRun != g.runs || lastTr != g.transitions {
			lastRun, lastTr, since = g.runs, g.transitions, time.Now()
			continue
		}
		if time.Since(since) > ExtDeadline {
			OnAbort("deadlock", "every live thread is blocked, the threads parked in channel operations did not come back: "+describeThreads())
		}
	}
}

// ExtResume is called by a thread that has come back from the operation announced by ExtBlock: it
// is schedulable again (if the thread that released it has not said so already) and continues once
// it holds the turn.
//
//go:norace
func ExtResume(me int32) {
	if me < 0 || g.active == 0 {
		return
	}
	t := &g.threads[me]
	if t.ext {
		t.op, t.obj = opResume, nil
		t.ext = false
		unpark(me)
	}
	waitTurn(me)
	t.op = opNone
}

// ExtResumeSel is ExtResume for a select statement: c is the communication that was chosen.  If it
// was completed at once by pairing with a parked thread, that thread is released.
//
//go:norace
func ExtResumeSel(me int32, c ChanRef) {
	if me < 0 || g.active == 0 {
		return
	}
	if c.P != nil && g.threads[me].ext {
		if c.Dir == DirRecv {
			released(c.P, DirSend, false)
		} else {
			released(c.P, DirRecv, false)
		}
	}
	ExtResume(me)
}

// SelectChoose decides a select statement without default whose communications are all named:
// it returns the index of a communication that can proceed now - by the scheduler's bookkeeping:
// buffered data or room, a closed channel, a parked partner - or -1 if none can.  With several
// candidates the Go runtime would take one at random; here it is a choice point of the explorer.
// The chosen communication is then performed as an operation of its own (ChanRecv / ChanSender, which
// park properly should the bookkeeping have been wrong).
//
//go:norace
func SelectChoose(chs ...ChanRef) int {
	if g.active == 0 {
		return -1
	}
	var ready [16]int32
	n := int32(0)
	for i, c := range chs {
		if i >= len(ready) {
			break
		}
		if c.P != nil && chanReady(c) {
			ready[n] = int32(i)
			n++
		}
	}
	switch n {
	case 0:
		return -1
	case 1:
		return int(ready[0])
	}
	if !g.cfg.Sched {
		return int(ready[0])
	}
	return int(ready[choose(KindSelect, n, false, g.cur)])
}

// hchanHead mirrors the first words of the runtime's channel header (qcount, dataqsiz, buf,
// elemsize, closed): read-only, to tell whether an operation can proceed.
type hchanHead struct {
	qcount   uint
	dataqsiz uint
	buf      unsafe.Pointer
	elemsize uint16
	closed   uint32
}

// mirrorOK: the mirror above is checked once against channels of known content; if the runtime's
// layout is another one, selects are left to the runtime (SelectChoose answers -1).
var mirrorOK = func() bool {
	a := make(chan int32, 3)
	a <- 1
	a <- 2
	b := make(chan struct{})
	close(b)
	ha, hb := (*hchanHead)(chanPtr(a)), (*hchanHead)(chanPtr(b))
	return ha.qcount == 2 && ha.dataqsiz == 3 && ha.closed == 0 && ha.elemsize == 4 && hb.qcount == 0 && hb.dataqsiz == 0 && hb.closed == 1
}()

//go:norace
func chanReady(c ChanRef) bool {
	if !mirrorOK {
		return false
	}
	h := (*hchanHead)(c.P)
	if h.closed != 0 {
		return true
	}
	want := DirSend
	if c.Dir == DirSend {
		if h.qcount < h.dataqsiz {
			return true
		}
		want = DirRecv
	} else if h.qcount > 0 {
		return true
	}
	for i := int32(0); i < nparked; i++ {
		r := &parked[i]
		for k := int32(0); k < r.n; k++ {
			if r.ch[k].P == c.P && r.ch[k].Dir == want {
				return true
			}
		}
	}
	return false
}

// SelRecv / SelSend name a channel of a select statement for ExtBlock.
func SelRecv[T any](ch <-chan T) ChanRef { return ChanRef{chanPtr(ch), DirRecv} }
func SelSend[T any](ch chan<- T) ChanRef { return ChanRef{chanPtr(ch), DirSend} }

func chanPtr[C any](ch C) unsafe.Pointer { return *(*unsafe.Pointer)(unsafe.Pointer(&ch)) }

// Gosched replaces runtime.Gosched in instrumented code (see opGosched in pick).
//
//go:norace
func Gosched() {
	if g.active == 0 {
		runtime.Gosched()
		return
	}
	point(opGosched, nil)
}

// Sleep replaces time.Sleep in instrumented code: under the scheduler a sleep is a point at which
// other threads may run (latency is what the schedules model), not a wall-clock delay.
//
//go:norace
func Sleep(d time.Duration) {
	if g.active == 0 {
		time.Sleep(d)
		return
	}
	point(opGosched, nil) // a sleeping thread lets the others run first
}

// AP is placed around the callee of every sync/atomic operation: an atomic operation is a
// synchronisation operation and therefore a scheduling point.
//
//go:norace
func AP[F any](f F) F {
	point(opYield, nil)
	return f
}

// Yield is a scheduling point with no effect; harness functions use it to model latency.
//
//go:norace
func Yield() { point(opYield, nil) }

// Go replaces the go statement of the instrumented code.
//
//go:norace
func Go(f func()) {
	if g.active == 0 {
		go f()
		return
	}
	point(opGo, nil)
	if g.nthreads >= MaxThreads {
		OnAbort("overflow", "more than MaxThreads threads")
	}
	id := g.nthreads
	g.threads[id] = thread{state: 1, op: opStart}
	g.nthreads++
	g.all.Add(1)
	// Threads run on pooled goroutines that persist across executions (creating a goroutine is
	// expensive under the race detector).  Within one execution every thread has its own goroutine,
	// and the channel send below is the only edge the pool adds: spawner -> child, exactly the
	// happens-before edge of the go statement it replaces.
	if pool[id] == nil {
		pool[id] = make(chan func(), 1)
		go worker(id, pool[id])
	}
	pool[id] <- f
	// second scheduling point, now that the child exists: it may run before the parent's next step
	point(opYield, nil)
}

var pool [MaxThreads]chan func()

//go:norace
func worker(id int32, in chan func()) {
	for f := range in {
		threadMain(id, f)
	}
}

//go:norace
func threadMain(id int32, f func()) {
	waitTurn(id)
	t := &g.threads[id]
	t.op = opNone
	defer threadExit(id)
	f()
}

//go:norace
func threadExit(id int32) {
	if r := recover(); r != nil {
		if g.gpanic == "" {
			g.gpanic = fmt.Sprintf("%v", r)
		}
	}
	t := &g.threads[id]
	t.state = 2
	t.op = opExit
	g.transitions++
	next := pick(id) // id is finished, hence never chosen; thread 0 (JoinAll) is enabled when all are done
	g.cur = next
	g.all.Done()
	g.turn = next
}

// Log appends an event to the per-execution event log (harness functions).
//
//go:norace
func Log(tag int32, a, b int64) {
	if g.active == 0 {
		return
	}
	if g.nevents >= MaxEvents {
		return
	}
	g.events[g.nevents] = Event{Thread: g.cur, Tag: tag, A: a, B: b}
	g.nevents++
}

// Self returns the id of the running thread (0 outside controlled executions).
//
//go:norace
func Self() int32 {
	if g.active == 0 {
		return 0
	}
	return g.cur
}
