//go:build verif

// Package vrt is the verification runtime injected into the genql build (as the virtual package
// github.com/vedadiyan/genql/vrt, through `go build -overlay`).  It provides
//
//   - a cooperative scheduler: library goroutines and harness threads become "threads" that only
//     run while they hold the turn; every sync operation, spawn, exit and Yield is a scheduling
//     point at which the explorer decides who runs next;
//   - drop-in shims for sync.Mutex / RWMutex / WaitGroup / Once that call the scheduler first and
//     the real primitive afterwards (so the race detector sees the program's own edges only);
//   - a seam for Go map iteration order (RangeMap);
//   - an event log for harness functions.
//
// The turn is handed over through a plain word polled in a runtime.Gosched loop inside
// //go:norace functions (GOMAXPROCS must be 1).  All scheduler bookkeeping lives in fixed-size
// arrays that are only touched from //go:norace code, so the hand-off creates no happens-before
// edge for the race detector.
package vrt

import (
	"fmt"
	"os"
	"runtime"
	realsync "sync"
	"unsafe"
)

const (
	MaxThreads = 2048
	MaxPoints  = 1 << 16
	MaxEvents  = 1 << 14
	StepCap    = 1 << 21
)

type opKind int32

const (
	opNone opKind = iota
	opStart
	opLock
	opUnlock
	opRLock
	opRUnlock
	opWLock
	opWUnlock
	opAdd
	opWait
	opGo
	opYield
	opExit
	opJoinAll
)

// Choice-point kinds.
const (
	KindSched uint8 = 0
	KindMap   uint8 = 1
	KindUser  uint8 = 2
)

type thread struct {
	state    int32 // 0 unused, 1 live, 2 finished
	op       opKind
	obj      unsafe.Pointer
	steps    int32
	released bool
}

// Point is one recorded choice point (only points with >= 2 alternatives are recorded).
type Point struct {
	Kind       uint8
	N          int32 // number of alternatives
	Chosen     int32
	RunEnabled bool   // KindSched: the running thread was enabled (alternatives != 0 are preemptions)
	Site       int32  // KindMap: range site id; KindSched: running thread
	Hash       uint64 // scheduler state hash at this point
}

type Event struct {
	Thread int32
	Tag    int32
	A, B   int64
}

// Config selects which kinds of nondeterminism become explorer-owned choice points.
type Config struct {
	Sched    bool // schedule choices (otherwise: always keep running / lowest id)
	MapOrder bool // map iteration order choices (otherwise: sorted order)
	Quiet    bool // registered quiet mutexes are not scheduling points (see SetQuiet)
}

type Result struct {
	Points      []Point
	Transitions int64 // scheduling points passed (incl. those without alternatives)
	Threads     int
	Events      []Event
	GPanic      string // first panic that reached the top of a library goroutine ("" if none)
	Hashes      []uint64
}

type global struct {
	active      int32
	turn        int32
	cur         int32
	nthreads    int32
	threads     [MaxThreads]thread
	cfg         Config
	prefix      [MaxPoints]int32
	prefixLen   int32
	points      [MaxPoints]Point
	npoints     int32
	transitions int64
	events      [MaxEvents]Event
	nevents     int32
	gpanic      string
	all         realsync.WaitGroup
	mapSites    int64
}

var g global

// OnAbort is called (on the aborting thread) when an execution cannot continue: deadlock,
// divergence while replaying a prefix, step cap, table overflow.  It must not return.
var OnAbort = func(kind string, detail string) {
	fmt.Fprintf(os.Stderr, "vrt: abort: %s: %s\n", kind, detail)
	os.Exit(3)
}

//go:norace
func Active() bool { return g.active != 0 }

// Run executes body as thread 0 of a controlled execution and returns once every thread spawned
// through Go has finished.  prefix holds the choices to replay; later choice points answer 0.
//
//go:norace
func Run(cfg Config, prefix []int32, body func()) *Result {
	if g.active != 0 {
		panic("vrt.Run: nested")
	}
	if len(prefix) > MaxPoints {
		panic("vrt.Run: prefix too long")
	}
	for i := range g.threads {
		g.threads[i] = thread{}
	}
	g.cfg = cfg
	g.prefixLen = int32(len(prefix))
	for i, c := range prefix {
		g.prefix[i] = c
	}
	g.npoints = 0
	g.transitions = 0
	g.nevents = 0
	g.gpanic = ""
	g.nthreads = 1
	g.threads[0] = thread{state: 1}
	g.cur = 0
	g.turn = 0
	g.active = 1
	body()
	// wait for every other thread
	point(opJoinAll, nil)
	g.active = 0
	g.all.Wait()
	if g.npoints < g.prefixLen {
		OnAbort("divergence", fmt.Sprintf("prefix of %d choices but execution had only %d choice points", g.prefixLen, g.npoints))
	}
	res := &Result{
		Points:      make([]Point, g.npoints),
		Transitions: g.transitions,
		Threads:     int(g.nthreads),
		Events:      make([]Event, g.nevents),
		GPanic:      g.gpanic,
	}
	copy(res.Points, g.points[:g.npoints])
	copy(res.Events, g.events[:g.nevents])
	return res
}

//go:norace
func enabled(i int32) bool {
	t := &g.threads[i]
	if t.state != 1 {
		return false
	}
	switch t.op {
	case opLock:
		return !(*Mutex)(t.obj).held
	case opWLock:
		rw := (*RWMutex)(t.obj)
		return !rw.w && rw.r == 0
	case opRLock:
		return !(*RWMutex)(t.obj).w
	case opWait:
		return t.released || (*WaitGroup)(t.obj).n == 0
	case opJoinAll:
		for j := int32(0); j < g.nthreads; j++ {
			if j != i && g.threads[j].state == 1 {
				return false
			}
		}
		return true
	}
	return true
}

//go:norace
func stateHash() uint64 {
	h := uint64(1469598103934665603)
	for i := int32(0); i < g.nthreads; i++ {
		t := &g.threads[i]
		for _, x := range [3]uint64{uint64(t.state), uint64(t.steps), uint64(t.op)} {
			h ^= x + 0x9e3779b97f4a7c15
			h *= 1099511628211
		}
	}
	return h
}

// choose records a choice point with n >= 2 alternatives and returns the decided alternative.
//
//go:norace
func choose(kind uint8, n int32, runEnabled bool, site int32) int32 {
	i := g.npoints
	if i >= MaxPoints {
		OnAbort("overflow", "more than MaxPoints choice points in one execution")
	}
	c := int32(0)
	if i < g.prefixLen {
		c = g.prefix[i]
		if c < 0 || c >= n {
			OnAbort("divergence", fmt.Sprintf("choice %d at point %d out of range (arity %d, kind %d)", c, i, n, kind))
		}
	}
	g.points[i] = Point{Kind: kind, N: n, Chosen: c, RunEnabled: runEnabled, Site: site, Hash: stateHash()}
	g.npoints++
	return c
}

// pick decides which thread runs next; me is the thread at the scheduling point.
//
//go:norace
func pick(me int32) int32 {
	var list [MaxThreads]int32
	n := int32(0)
	meEnabled := enabled(me)
	if meEnabled {
		list[0] = me
		n = 1
	}
	for j := int32(0); j < g.nthreads; j++ {
		if j != me && enabled(j) {
			list[n] = j
			n++
		}
	}
	if n == 0 {
		OnAbort("deadlock", describeThreads())
	}
	if n == 1 {
		return list[0]
	}
	if !g.cfg.Sched {
		return list[0]
	}
	c := choose(KindSched, n, meEnabled, me)
	return list[c]
}

//go:norace
func describeThreads() string {
	s := ""
	for j := int32(0); j < g.nthreads; j++ {
		t := &g.threads[j]
		s += fmt.Sprintf("[t%d state=%d op=%d steps=%d]", j, t.state, t.op, t.steps)
	}
	if g.gpanic != "" {
		s += " after goroutine panic: " + g.gpanic
	}
	return s
}

// point is a scheduling point of the running thread.
//
//go:norace
func point(op opKind, obj unsafe.Pointer) {
	if g.active == 0 {
		return
	}
	me := g.cur
	t := &g.threads[me]
	t.op, t.obj = op, obj
	t.steps++
	g.transitions++
	if g.transitions > StepCap {
		OnAbort("livelock", "step cap exceeded: "+describeThreads())
	}
	next := pick(me)
	if next != me {
		g.cur = next
		g.turn = next
		for g.turn != me {
			runtime.Gosched()
		}
	}
	t.op, t.obj = opNone, nil
	t.released = false
}

// Yield is a scheduling point with no effect; harness functions use it to model latency.
//
//go:norace
func Yield() { point(opYield, nil) }

// Go replaces the go statement of the instrumented code.
//
//go:norace
func Go(f func()) {
	if g.active == 0 {
		go f()
		return
	}
	point(opGo, nil)
	if g.nthreads >= MaxThreads {
		OnAbort("overflow", "more than MaxThreads threads")
	}
	id := g.nthreads
	g.threads[id] = thread{state: 1, op: opStart}
	g.nthreads++
	g.all.Add(1)
	// Threads run on pooled goroutines that persist across executions (creating a goroutine is
	// expensive under the race detector).  Within one execution every thread has its own goroutine,
	// and the channel send below is the only edge the pool adds: spawner -> child, exactly the
	// happens-before edge of the go statement it replaces.
	if pool[id] == nil {
		pool[id] = make(chan func(), 1)
		go worker(id, pool[id])
	}
	pool[id] <- f
	// second scheduling point, now that the child exists: it may run before the parent's next step
	point(opYield, nil)
}

var pool [MaxThreads]chan func()

//go:norace
func worker(id int32, in chan func()) {
	for f := range in {
		threadMain(id, f)
	}
}

//go:norace
func threadMain(id int32, f func()) {
	for g.turn != id {
		runtime.Gosched()
	}
	t := &g.threads[id]
	t.op = opNone
	defer threadExit(id)
	f()
}

//go:norace
func threadExit(id int32) {
	if r := recover(); r != nil {
		if g.gpanic == "" {
			g.gpanic = fmt.Sprintf("%v", r)
		}
	}
	t := &g.threads[id]
	t.state = 2
	t.op = opExit
	g.transitions++
	next := pick(id) // id is finished, hence never chosen; thread 0 (JoinAll) is enabled when all are done
	g.cur = next
	g.all.Done()
	g.turn = next
}

// Log appends an event to the per-execution event log (harness functions).
//
//go:norace
func Log(tag int32, a, b int64) {
	if g.active == 0 {
		return
	}
	if g.nevents >= MaxEvents {
		return
	}
	g.events[g.nevents] = Event{Thread: g.cur, Tag: tag, A: a, B: b}
	g.nevents++
}

// Self returns the id of the running thread (0 outside controlled executions).
//
//go:norace
func Self() int32 {
	if g.active == 0 {
		return 0
	}
	return g.cur
}
