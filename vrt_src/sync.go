//go:build verif

package vrt

import (
	realsync "sync"
	"sync/atomic"
	"unsafe"
)

// The instrumenter rewrites `import "sync"` to `import sync "github.com/vedadiyan/genql/vrt"`,
// so this file has to offer everything of package sync that instrumented code may name.

type (
	Locker = realsync.Locker
	Map    = realsync.Map
	Pool   = realsync.Pool
)

func OnceFunc(f func()) func() { return realsync.OnceFunc(f) }

func OnceValue[T any](f func() T) func() T { return realsync.OnceValue(f) }

func OnceValues[T1, T2 any](f func() (T1, T2)) func() (T1, T2) { return realsync.OnceValues(f) }

// Mutex: scheduling point first, the real mutex afterwards (never blocks: the model says it is free).
type Mutex struct {
	m    realsync.Mutex
	held bool
}

//go:norace
func (m *Mutex) Lock() {
	if !(isQuiet(unsafe.Pointer(m)) && !m.held) {
		point(opLock, unsafe.Pointer(m))
	}
	m.m.Lock()
	m.held = true
}

//go:norace
func (m *Mutex) Unlock() {
	if !isQuiet(unsafe.Pointer(m)) {
		point(opUnlock, unsafe.Pointer(m))
	}
	m.held = false
	m.m.Unlock()
}

// Quiet mutexes: with Config.Quiet set, Lock of a *free* registered mutex and its Unlock are not
// scheduling points.  This is an abstraction for result-oriented checks only: it is exact when the
// critical sections of that mutex contain no scheduling point (then they are atomic under the
// cooperative scheduler anyway, and the mutex is never contended) and commute with everything the
// oracle observes.  A Lock that finds the mutex held is still a blocking scheduling point.
var quietSet [4]unsafe.Pointer

func SetQuiet(ptrs ...unsafe.Pointer) {
	for i := range quietSet {
		quietSet[i] = nil
	}
	copy(quietSet[:], ptrs)
}

//go:norace
func isQuiet(p unsafe.Pointer) bool {
	if g.active == 0 || !g.cfg.Quiet {
		return false
	}
	for _, q := range quietSet {
		if q == p && q != nil {
			return true
		}
	}
	return false
}

//go:norace
func (m *Mutex) TryLock() bool {
	point(opYield, nil)
	if m.m.TryLock() {
		m.held = true
		return true
	}
	return false
}

type RWMutex struct {
	m realsync.RWMutex
	w bool
	r int32
}

//go:norace
func (m *RWMutex) Lock() {
	point(opWLock, unsafe.Pointer(m))
	m.m.Lock()
	m.w = true
}

//go:norace
func (m *RWMutex) Unlock() {
	point(opWUnlock, unsafe.Pointer(m))
	m.w = false
	m.m.Unlock()
}

//go:norace
func (m *RWMutex) RLock() {
	point(opRLock, unsafe.Pointer(m))
	m.m.RLock()
	m.r++
}

//go:norace
func (m *RWMutex) RUnlock() {
	point(opRUnlock, unsafe.Pointer(m))
	m.r--
	m.m.RUnlock()
}

//go:norace
func (m *RWMutex) TryLock() bool {
	point(opYield, nil)
	if m.m.TryLock() {
		m.w = true
		return true
	}
	return false
}

//go:norace
func (m *RWMutex) TryRLock() bool {
	point(opYield, nil)
	if m.m.TryRLock() {
		m.r++
		return true
	}
	return false
}

type rlocker RWMutex

func (r *rlocker) Lock()   { (*RWMutex)(r).RLock() }
func (r *rlocker) Unlock() { (*RWMutex)(r).RUnlock() }

func (m *RWMutex) RLocker() Locker { return (*rlocker)(m) }

type WaitGroup struct {
	wg realsync.WaitGroup
	n  int64
}

//go:norace
func (w *WaitGroup) Add(delta int) {
	point(opAdd, unsafe.Pointer(w))
	w.n += int64(delta)
	if w.n == 0 && g.active != 0 {
		// every thread already waiting is released by this zero crossing, even if the counter is
		// raised again before it is scheduled
		for j := int32(0); j < g.nthreads; j++ {
			t := &g.threads[j]
			if t.state == 1 && t.op == opWait && t.obj == unsafe.Pointer(w) {
				t.released = true
			}
		}
	}
	w.wg.Add(delta)
}

func (w *WaitGroup) Done() { w.Add(-1) }

//go:norace
func (w *WaitGroup) Wait() {
	point(opWait, unsafe.Pointer(w))
	if g.active != 0 && w.n != 0 {
		// released by an earlier zero crossing; the real counter is non-zero again, do not block
		return
	}
	w.wg.Wait()
}

// Once built on the controlled mutex, so that a thread descheduled inside Do cannot block the
// process on a real lock.
type Once struct {
	done atomic.Bool
	m    Mutex
}

func (o *Once) Do(f func()) {
	if o.done.Load() {
		return
	}
	o.m.Lock()
	defer o.m.Unlock()
	if !o.done.Load() {
		defer o.done.Store(true)
		f()
	}
}
