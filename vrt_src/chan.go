//go:build verif

package vrt

import (
	"iter"
	realsync "sync"
	"sync/atomic"
	"unsafe"
)

// Channel operations of instrumented code.  The instrumenter rewrites
//
//	ch <- v            ->  vrt.ChanSender(ch)(v)
//	<-ch               ->  vrt.ChanRecv(ch)
//	v, ok := <-ch      ->  v, ok := vrt.ChanRecv2(ch)
//	close(ch)          ->  vrt.ChanClose(ch)
//	for v := range ch  ->  for v := range vrt.ChanRange(ch)
//	select { ... }     ->  { id := vrt.ExtBlock(); select { case ...: vrt.ExtResume(id); ... } }
//
// Every operation is a scheduling point (a channel operation is a synchronisation operation).  The
// real channel is always used, so the race detector sees exactly the program's own edges.  An
// operation that can complete at once is performed while the thread holds the turn; one that
// cannot parks the thread *in the real operation* after the turn has been given away (ExtBlock), and
// the thread re-enters the scheduler when the operation has completed (ExtResume).

func ChanSender[T any](ch chan<- T) func(T) {
	return func(v T) {
		if g.active == 0 {
			ch <- v
			return
		}
		point(opYield, nil)
		select {
		case ch <- v:
			released(chanPtr(ch), DirRecv, false)
			return
		default:
		}
		id := ExtBlock(ChanRef{chanPtr(ch), DirSend})
		ch <- v
		ExtResume(id)
	}
}

func ChanRecv[T any](ch <-chan T) T {
	v, _ := ChanRecv2(ch)
	return v
}

func ChanRecv2[T any](ch <-chan T) (T, bool) {
	if g.active == 0 {
		v, ok := <-ch
		return v, ok
	}
	point(opYield, nil)
	select {
	case v, ok := <-ch:
		if ok {
			released(chanPtr(ch), DirSend, false)
		}
		return v, ok
	default:
	}
	id := ExtBlock(ChanRef{chanPtr(ch), DirRecv})
	v, ok := <-ch
	ExtResume(id)
	return v, ok
}

func ChanClose[T any](ch chan<- T) {
	point(opYield, nil)
	close(ch)
	released(chanPtr(ch), 0, true)
}

func ChanRange[T any](ch <-chan T) iter.Seq[T] {
	return func(yield func(T) bool) {
		for {
			v, ok := ChanRecv2(ch)
			if !ok || !yield(v) {
				return
			}
		}
	}
}

// Cond is sync.Cond on the scheduler's model: Wait registers the thread, releases L (a scheduling
// point of the controlled mutex) and is enabled again once Signal / Broadcast has picked it.
// Outside controlled executions a real sync.Cond on the same Locker is used.
type Cond struct {
	L     Locker
	once  realsync.Once
	real  *realsync.Cond
	w     [64]int32
	nw    int32
	edges atomic.Uint64 // carries the happens-before edge Signal -> return of Wait
}

func NewCond(l Locker) *Cond { return &Cond{L: l} }

func (c *Cond) r() *realsync.Cond {
	c.once.Do(func() { c.real = realsync.NewCond(c.L) })
	return c.real
}

//go:norace
func (c *Cond) Wait() {
	if g.active == 0 {
		c.r().Wait()
		return
	}
	me := g.cur
	if c.nw >= int32(len(c.w)) {
		OnAbort("overflow", "more than 64 waiters on one sync.Cond")
	}
	c.w[c.nw] = me
	c.nw++
	g.threads[me].released = false
	c.L.Unlock()
	point(opCondWait, unsafe.Pointer(c))
	c.edges.Load()
	c.L.Lock()
}

//go:norace
func (c *Cond) Signal() {
	if g.active == 0 {
		c.r().Signal()
		return
	}
	point(opYield, nil)
	c.edges.Add(1)
	if c.nw > 0 {
		g.threads[c.w[0]].released = true
		for k := int32(0); k+1 < c.nw; k++ {
			c.w[k] = c.w[k+1]
		}
		c.nw--
	}
}

//go:norace
func (c *Cond) Broadcast() {
	if g.active == 0 {
		c.r().Broadcast()
		return
	}
	point(opYield, nil)
	c.edges.Add(1)
	for i := int32(0); i < c.nw; i++ {
		g.threads[c.w[i]].released = true
	}
	c.nw = 0
}
